"""Shared infrastructure of the correspondence harness (DESIGN.md section 4).

Everything that touches the implementation imports it through `impl()`, which installs the
`jax.util` shim (DESIGN section 1) and makes sure that `lcm` is the working tree under
$LCM_REPO/src (default /repo/src).
"""
from __future__ import annotations

import json
import os
import select
import subprocess
import sys
import time
import types
from fractions import Fraction as Fr
from pathlib import Path

VERIF = Path(__file__).resolve().parent.parent
LEAN = VERIF / "lean"
DRIVER = LEAN / ".lake" / "build" / "bin" / "lcmdriver"
REPO = Path(os.environ.get("LCM_REPO", "/repo")).resolve()
GUARD_ENV = "OPENSOURCEECONOMICS_LCM_VERIF"


class HarnessError(Exception):
    """Infrastructure failure (exit 2): never a violation."""


# --------------------------------------------------------------------------------------
# implementation side
# --------------------------------------------------------------------------------------
_IMPL = None


def impl(x64: bool = True):
    """Import the implementation (once per process) and return a namespace of handles."""
    global _IMPL
    if _IMPL is not None:
        return _IMPL
    os.environ.setdefault("JAX_PLATFORMS", "cpu")
    os.environ.setdefault(
        "XLA_FLAGS",
        "--xla_cpu_multi_thread_eigen=false intra_op_parallelism_threads=1",
    )
    os.environ.setdefault("OMP_NUM_THREADS", "1")
    os.environ[GUARD_ENV] = "1"
    import logging
    import warnings

    warnings.filterwarnings("ignore")
    import jax
    import jax._src.util as _u

    if "jax.util" not in sys.modules:
        try:
            from jax import util as _probe  # noqa: F401
        except Exception:  # noqa: BLE001
            m = types.ModuleType("jax.util")
            m.safe_zip = _u.safe_zip
            m.unzip2 = _u.unzip2
            sys.modules["jax.util"] = m
            jax.util = m
    jax.config.update("jax_enable_x64", bool(x64))
    src = str(REPO / "src")
    if src in sys.path:
        sys.path.remove(src)
    sys.path.insert(0, src)
    import lcm  # noqa: E402

    if not str(Path(lcm.__file__).resolve()).startswith(src):
        raise HarnessError(f"lcm imported from {lcm.__file__}, expected under {src}")
    logging.disable(logging.CRITICAL)
    import jax.numpy as jnp
    import numpy as np

    ns = types.SimpleNamespace(jax=jax, jnp=jnp, np=np, lcm=lcm, x64=x64)
    _IMPL = ns
    return ns


def impl_site(exc: BaseException) -> str:
    """`<ExceptionType>@<lcm file>:<function>` of the innermost lcm frame (canonical error id)."""
    import traceback

    tb = traceback.extract_tb(exc.__traceback__)
    src = str(REPO / "src" / "lcm")
    frames = [f for f in tb if f.filename.startswith(src)]
    if frames:
        f = frames[-1]
        return f"{type(exc).__name__}@{Path(f.filename).name}:{f.name}"
    return f"{type(exc).__name__}@<outside lcm>"


# --------------------------------------------------------------------------------------
# rationals
# --------------------------------------------------------------------------------------
def fr(x) -> str:
    """Exact rational text of a python/numpy number (floats are taken at face value)."""
    if isinstance(x, str):
        return x
    if isinstance(x, bool):
        return "1" if x else "0"
    if isinstance(x, Fr):
        q = x
    elif isinstance(x, int):
        q = Fr(x)
    else:
        xf = float(x)
        if xf != xf:
            return "nan"
        if xf in (float("inf"), float("-inf")):
            return "inf" if xf > 0 else "-inf"
        q = Fr(xf)
    return f"{q.numerator}/{q.denominator}" if q.denominator != 1 else f"{q.numerator}"


def unfr(s: str):
    if s in ("-inf", "inf", "nan"):
        return s
    return Fr(s)


def tensor_json(a) -> dict:
    """numpy/jax array -> {"shape", "data"} with exact rationals (row-major)."""
    import numpy as np

    a = np.asarray(a)
    flat = a.ravel() if a.shape else np.array([a[()]])
    if a.dtype == bool:
        return {"shape": list(a.shape), "data": [bool(x) for x in flat]}
    if np.issubdtype(a.dtype, np.integer):
        return {"shape": list(a.shape), "data": [str(int(x)) for x in flat]}
    return {"shape": list(a.shape), "data": [fr(float(x)) for x in flat]}


INEXACT = {"count": 0}
INEXACT_RTOL = 1e-12


def same_number(impl_x, model_s: str, tol: float | None = None) -> bool:
    """Compare an implementation float with a model rational string.

    `tol=None` is the exact stream: equality of rationals. A difference below 1e-12 relative is classified as an
    "inexact case" (the generator's bit budget was exceeded, so some float operation of the implementation had to
    round): counted in INEXACT, not alarmed (DESIGN section 4)."""
    import math

    x = float(impl_x)
    if model_s == "-inf":
        return x == float("-inf")
    if model_s == "inf":
        return x == float("inf")
    if model_s == "nan":
        return x != x
    if x != x or math.isinf(x):
        return False
    q = Fr(model_s)
    if tol is None:
        if Fr(x) == q:
            return True
        if abs(Fr(x) - q) <= Fr(INEXACT_RTOL) * max(Fr(1), abs(q)):
            INEXACT["count"] += 1
            return True
        return False
    return abs(x - float(q)) <= tol * max(1.0, abs(float(q)))


def close_floats(a, b) -> bool:
    """implementation-vs-implementation comparison of two float arrays on the exact stream (see same_number)"""
    import numpy as np

    a = np.asarray(a, dtype=float)
    b = np.asarray(b, dtype=float)
    if a.shape != b.shape:
        return False
    if np.array_equal(a, b):
        return True
    fin = np.isfinite(a) & np.isfinite(b)
    if not np.array_equal(np.where(fin, 0.0, a), np.where(fin, 0.0, b), equal_nan=True):
        return False
    ok = np.abs(a[fin] - b[fin]) <= INEXACT_RTOL * np.maximum(1.0, np.abs(b[fin]))
    if bool(np.all(ok)):
        INEXACT["count"] += int(np.sum(a[fin] != b[fin]))
        return True
    return False


# --------------------------------------------------------------------------------------
# the Lean model driver
# --------------------------------------------------------------------------------------
class Driver:
    """One long-lived `lcmdriver` process; JSON lines both ways."""

    def __init__(self, timeout: float = 120.0):
        if not DRIVER.exists():
            raise HarnessError(f"model driver not built: {DRIVER}")
        self.timeout = timeout
        self._start()

    def _start(self):
        self.p = subprocess.Popen(
            [str(DRIVER)],
            stdin=subprocess.PIPE,
            stdout=subprocess.PIPE,
            stderr=subprocess.DEVNULL,
            text=True,
            bufsize=1,
        )

    def call(self, req: dict):
        line = json.dumps(req)
        try:
            self.p.stdin.write(line + "\n")
            self.p.stdin.flush()
        except BrokenPipeError as e:
            self._start()
            raise HarnessError("model driver died") from e
        r, _, _ = select.select([self.p.stdout], [], [], self.timeout)
        if not r:
            self.p.kill()
            self._start()
            raise HarnessError(f"model driver timeout on op {req.get('op')}")
        out = self.p.stdout.readline()
        if not out:
            self._start()
            raise HarnessError(f"model driver closed the stream on op {req.get('op')}")
        ans = json.loads(out)
        if "err" in ans and "ok" not in ans:
            raise HarnessError(f"model driver error on op {req.get('op')}: {ans['err'][:300]}")
        return ans["ok"]

    def close(self):
        try:
            self.p.stdin.close()
            self.p.wait(timeout=5)
        except Exception:  # noqa: BLE001
            self.p.kill()


_DRV = None


def driver() -> Driver:
    global _DRV
    if _DRV is None:
        _DRV = Driver()
    return _DRV


def now() -> float:
    return time.time()
