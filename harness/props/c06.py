"""C06 - solve and simulate agree with each other.

(a) whenever an agent's period-t state lies on the state grid, the simulated value equals the entry of
    the solved value array of period t at that state; the entry is located through the layout contract
    computed by the Lean model (`layout`: feasible-rank of the restricted states, unrestricted discrete
    labels, continuous node indices);
(b) target 'solve_and_simulate' returns the same frame as solve followed by target 'simulate'.
"""
from __future__ import annotations

from fractions import Fraction as Fr

from common import close_floats, fr, impl
from dsl import grid_points, params_impl
from pipeline import explicit_case, init_impl, model_layout
from props.simcommon import base_out, replay_case, run_panel, sim_cases

CANARY = True
RULE = ("cases = generated dyadic specifications (half of them fully discrete, so that every simulated state of every period is on the "
        "grid) x on-grid initial states x batches; distinct = structural signature; evaluations = on-grid agent-periods compared with the "
        "value array + frame cells compared between 'solve_and_simulate' and solve->'simulate'")
ASSUMPTIONS = ["exact comparison on dyadic inputs", "agents whose state leaves the stored state space are skipped"]


def cases(seed, tier):
    cs = sim_cases(seed + 3, tier)
    for i, c in enumerate(cs):
        c["on_grid"] = True
        c["random_V"] = False
        if i % 2 == 0:
            c["force"] = sorted(set((c["force"] or []) + ["discrete"]))
        if i % 4 == 0:
            # fully discrete decision problem with (binding) constraints on discrete choices
            c["force"] = sorted(set([x for x in c["force"] if x not in ("cont2", "flatc")] + ["nocc", "constraint"]))
        if i % 4 == 1:
            # initial states in the dtypes a data set delivers: int8 codes, float32 columns (on the grid all the same)
            c["narrow_init"] = True
            c["int_init"] = False
            if i % 8 == 1:
                c["force"] = sorted(set([x for x in (c["force"] or []) if x not in ("stacked", "divguard")] + ["intutil"]))
        if i % 8 == 3:
            # transitions of discrete states that return int8: later periods must be evaluated like the first one
            c["force"] = sorted(set([x for x in (c["force"] or []) if x not in ("stacked", "divguard", "stoch", "stoch3")] + ["intutil", "narrownext", "nostoch"]))
        if i % 5 == 2:
            # states without any feasible choice (value -inf): both routes must report the same -inf
            # (not on log grids: next to a -inf entry the interpolation weight of a log-grid node is 0 or 1e-17 depending on
            # rounding, i.e. nan or -inf - outside the supported class and outside exact arithmetic at the same time)
            c["force"] = sorted(set([x for x in (c["force"] or []) if x != "log"] + ["ninf"]))
            c["allow_ninf"] = True
    return cs


def np_isinf_any(V):
    import numpy as _np

    return any(_np.isneginf(_np.asarray(v)).any() for v in V)


def _on_grid(info, tag=""):
    """(a): simulated values of on-grid agents against the implementation's own value arrays, through the model's layout"""
    mj, V, rows = info["mj"], info["V"], info["rows"]
    G = dict(mj["states"])
    lay = model_layout(mj)
    vs = []
    n_on = 0
    for t in range(mj["n_periods"]):
        L = lay[t]
        feas = [tuple(Fr(x) for x in f) for f in L["feas"]]
        for i, row in enumerate(rows[t]):
            st = {s: Fr(v) for s, v in row["states"].items()}
            idx = []
            ok = True
            if L["sparse_states"]:
                key = tuple(st[s] for s in L["sparse_states"])
                if key not in feas:
                    continue
                idx.append(feas.index(key))
            for s in L["dense_states"]:
                idx.append(int(st[s]))
            for s in L["cont_states"]:
                if G[s]["k"] == "log":
                    # "on the grid" means: equal to the node the library materialises (jnp.logspace may differ from
                    # exp(log(start) + i * step) computed in Python by one ulp, and one ulp decides `choice <= state - 1`)
                    from dsl import mkgrid

                    impl()
                    pts = [Fr(float(x)) for x in impl().np.asarray(mkgrid(G[s]).to_jax())]
                else:
                    pts = grid_points(G[s])
                if st[s] not in pts:
                    ok = False
                    break
                idx.append(pts.index(st[s]))
            if not ok:
                continue
            n_on += 1
            entry = float(V[t][tuple(idx)]) if idx else float(V[t][()])
            if entry == float("-inf") and t < mj["n_periods"] - 1:
                # a state of a non-last period whose every choice has value -inf: the continuation interpolates among -inf
                # entries (0 * -inf, -inf + inf), which the model leaves undefined (`interpExt` = none) - not compared
                info["ninf_nonlast_skipped"] = info.get("ninf_nonlast_skipped", 0) + 1
                continue
            if row["value"] != row["value"] and t < mj["n_periods"] - 1 and bool(np_isinf_any(V)):
                # OPEN (DESIGN 11.16b): `nan` from simulate in a non-last period of a specification whose arrays hold -inf
                # entries - interpolation next to -inf, undefined in the model; counted, not compared, not decided
                info["nan_next_to_ninf_skipped"] = info.get("nan_next_to_ninf_skipped", 0) + 1
                continue
            if not close_floats([entry], [row["value"]]):
                vs.append({"clause": "simulated value equals the value array entry at an on-grid state",
                           "detail": f"{tag}period {t} agent {i} state {row['states']} index {idx}: simulated {fr(row['value'])}, V[{t}]{idx} = {fr(entry)}"})
    return vs, n_on


def run_case(case):
    I = impl()
    np = I.np
    info = run_panel(case)
    out = base_out(info, case)
    if "skip" in info:
        out["skipped"] = info["skip"]
        return out
    rc = replay_case(info, case)
    if "raise" in info:
        out["violations"].append({"clause": "simulate runs on a supported specification", "detail": info["raise"], "key": info["raise_key"], "shrink_case": rc})
        return out
    mj, V, rows = info["mj"], info["V"], info["rows"]
    lay = model_layout(mj)
    vs, n_on = _on_grid(info)
    # a second specification in the same process with the same variable and function names but another filter body (the
    # filter is relaxed to "always true"): its simulation must use its own filter
    fl = [f for f in info["mj"]["functions"] if f["name"].endswith("_filter")]
    if fl and not vs:
        import copy

        mj2 = copy.deepcopy(info["mj"])
        f2 = next(f for f in mj2["functions"] if f["name"] == fl[0]["name"])
        f2["body"] = ["or", f2["body"], ["le", ["num", "0"], ["num", "1"]]]
        case2 = explicit_case(mj2, [info["P"]], on_grid=True, n_agents=case.get("n_agents", 6), allow_ninf=True, seed=case.get("seed", 0),
                              init={s_: [str(x) for x in v] for s_, v in info["init"].items()}, sim_seed=info["sim_seed"], meta=info["meta"])
        info2 = run_panel(case2)
        if "skip" not in info2 and "raise" not in info2:
            v2, n2 = _on_grid(info2, tag="second specification in the same process (same names, filter relaxed): ")
            vs.extend(v2)
            n_on += n2
            out["hist"]["same_names_other_filter"] = 1
    # (b) solve_and_simulate == solve -> simulate
    cells = 0
    try:
        pd = params_impl(info["P"])     # this very dict object is changed in place further down
        df2 = info["fns"].solve_and_simulate(pd, initial_states=init_impl(mj, info["init"]), seed=info["sim_seed"])
        df1 = info["df"]
        if list(df1.columns) != list(df2.columns) or len(df1) != len(df2):
            vs.append({"clause": "'solve_and_simulate' returns the same frame as solve then 'simulate'", "detail": f"columns/length differ: {list(df1.columns)} x {len(df1)} vs {list(df2.columns)} x {len(df2)}"})
        else:
            for c in df1.columns:
                a, b = np.asarray(df1[c], dtype=float), np.asarray(df2[c], dtype=float)
                cells += len(a)
                if not np.array_equal(a, b, equal_nan=True):      # nan: value of a state whose continuation reads a -inf entry
                    k = int(np.nonzero(~((a == b) | (np.isnan(a) & np.isnan(b))))[0][0])
                    vs.append({"clause": "'solve_and_simulate' returns the same frame as solve then 'simulate'", "detail": f"column {c} row {k}: {a[k]} vs {b[k]}"})
                    break
        # second call on the same function object after changing a value *in place* in the same params dict
        if not vs:
            sas = info["fns"].solve_and_simulate
            new_beta = 0.25 if float(pd["beta"]) != 0.25 else 0.75
            pd["beta"] = new_beta
            df3 = sas(pd, initial_states=init_impl(mj, info["init"]), seed=info["sim_seed"])
            V3 = info["fns"].solve(pd)
            df4 = info["fns"].simulate(pd, initial_states=init_impl(mj, info["init"]), vf_arr_list=V3, seed=info["sim_seed"])
            for c in df3.columns:
                a, b = np.asarray(df3[c], dtype=float), np.asarray(df4[c], dtype=float)
                cells += len(a)
                if not close_floats(a, b):
                    k = int(np.nonzero(~np.isclose(a, b, rtol=1e-12, atol=1e-12))[0][0])
                    vs.append({"clause": "'solve_and_simulate' returns the same frame as solve then 'simulate' (second call, params dict changed in place)",
                               "detail": f"beta changed in place to {new_beta}: column {c} row {k}: {a[k]} vs {b[k]}"})
                    break
            out["hist"]["in_place_params_change"] = 1
    except Exception as e:  # noqa: BLE001
        from common import impl_site

        vs.append({"clause": "'solve_and_simulate' runs", "detail": f"{impl_site(e)}: {str(e)[:200]}"})
    out["evals"] = n_on + cells
    out["hist"]["on_grid_agent_periods"] = n_on
    out["hist"]["ninf_in_V"] = int(bool(info.get("has_ninf")))
    if info.get("nan_next_to_ninf_skipped"):
        out["hist"]["on_grid_skipped_nan_next_to_ninf_OPEN"] = info["nan_next_to_ninf_skipped"]
    if info.get("ninf_nonlast_skipped"):
        out["hist"]["on_grid_skipped_ninf_in_non_last_period"] = info["ninf_nonlast_skipped"]
    out["hist"]["fully_discrete"] = int(not any(g["k"] != "disc" for _, g in mj["states"]))
    for v in vs[:3]:
        v["key"] = "C06:" + v["clause"]
        v["shrink_case"] = rc
        out["violations"].append(v)
    out["sample"] = {"on_grid_agent_periods": n_on, "row_0_0": rows[0][0], "layout_period0": {k: lay[0][k] for k in ("sparse_states", "dense_states", "cont_states", "shape")}}
    return out
