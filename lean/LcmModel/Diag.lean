import LcmModel.Solve
namespace Lcm

/-! Diagnostics used only by the driver: they tell the harness when a specification leaves the
supported class of C01 (a transition leaves the stored state space, or touches a −inf value), so
that such periods are skipped instead of compared. Nothing here is used by a theorem. -/

/-- feasibility alone (the combined constraint) -/
def feasOnly (m : Model) (P : Params) (t : Nat) (env0 : Env) : Option Bool :=
  allTrue m P (env0 ++ periodEnv t) (((functionInfo m).filter (·.isConstraint)).map (·.name))

/-- number of stored state-choice environments of period `t` that are feasible but whose objective
is undefined in the model -/
def undefCount (m : Model) (P : Params) (g : Groups) (t : Nat) (sp : Space)
    (next : Option (Tensor Ext × List (List (Name × Rat)))) : Nat :=
  let rows : List (List (Name × Rat)) :=
    if g.sS.isEmpty && g.sC.isEmpty then [[]] else sp.rows.map fun r => r.1 ++ r.2
  let dense := assignments (g.dS ++ g.dC ++ cStateGrids g ++ g.cC)
  (rows.map fun row =>
    (dense.filter fun d =>
      let env := toEnv (row ++ d)
      (feasOnly m P t env == some true) && (uAndF m P g t next env).isNone).length).sum

/-- per period: `undefCount` along the backward loop of `solve` -/
def solveDiag (m : Model) (P : Params) (shift : Bool := true) : List Nat :=
  let g := groups m
  let V := solve m P shift
  (List.range m.nPeriods).map fun t =>
    let sp := mkSpace m P g t
    let next : Option (Tensor Ext × List (List (Name × Rat))) :=
      if t + 1 < m.nPeriods then
        some (V.getD (t + 1) default, (mkSpace m P g (if shift then t + 1 else t)).feas)
      else none
    undefCount m P g t sp next

end Lcm
