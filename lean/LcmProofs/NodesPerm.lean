import LcmProofs.AffineSolve
import LcmProofs.EnvPerm
import Mathlib.Data.List.Perm.Basic
import Mathlib.Tactic.Ring
namespace Lcm

/-! The expectation over the stochastic nodes does not depend on the order in which the stochastic transition functions
are declared: the node list of a permuted list of rows is a rearrangement (of the nodes and inside each node), the
weights are products, and the sum is commutative. -/

theorem flatMap_comm_perm {α β γ : Type} (xs : List α) (ys : List β) (f : α → β → List γ) :
    (xs.flatMap fun x => ys.flatMap fun y => f x y).Perm (ys.flatMap fun y => xs.flatMap fun x => f x y) := by
  induction xs with
  | nil => simp
  | cons x xs ih =>
    simp only [List.flatMap_cons]
    refine (List.Perm.append_left _ ih).trans ?_
    exact List.flatMap_append_perm ys (fun y => f x y) (fun y => xs.flatMap fun x' => f x' y)

/-- contribution of one node -/
def gK (K : List (Name × Rat) → Option Rat) (p : List (Name × Rat) × Rat) : Option Rat := (K p.1).map (p.2 * ·)

/-- `K` gives the same answer on rearranged assignments of the given keys -/
def InvOn (K : List (Name × Rat) → Option Rat) (keys : List Name) : Prop :=
  ∀ a a', a.Perm a' → (a.map (·.1)).Perm keys → K a = K a'

theorem nodesOf_cons (x : Name × List Rat) (l : List (Name × List Rat)) :
    nodesOf (x :: l) = x.2.zipIdx.flatMap fun (wl : Rat × Nat) =>
      (nodesOf l).map fun (ap : List (Name × Rat) × Rat) => ((x.1, (wl.2 : Rat)) :: ap.1, wl.1 * ap.2) := rfl

theorem nodes_keys (l : List (Name × List Rat)) (p : List (Name × Rat) × Rat) (hp : p ∈ nodesOf l) :
    p.1.map (·.1) = l.map (·.1) := by
  induction l generalizing p with
  | nil => simp [nodesOf] at hp; subst hp; rfl
  | cons x l ih =>
    rw [nodesOf_cons, List.mem_flatMap] at hp
    obtain ⟨wl, _, hp⟩ := hp
    rw [List.mem_map] at hp
    obtain ⟨ap, hap, rfl⟩ := hp
    simp [ih ap hap]

theorem nodes_map_perm (l l' : List (Name × List Rat)) (h : l.Perm l') :
    ∀ K, InvOn K (l.map (·.1)) → ((nodesOf l).map (gK K)).Perm ((nodesOf l').map (gK K)) := by
  induction h with
  | nil => intro K _; exact List.Perm.refl _
  | cons x h ih =>
    rename_i l l'
    intro K hK
    rw [nodesOf_cons, nodesOf_cons, List.map_flatMap, List.map_flatMap]
    apply List.Perm.flatMap_left
    intro wl _
    rw [List.map_map, List.map_map]
    -- the inner lists are node lists of `l`, `l'` seen through `K_wl`
    let Kwl : List (Name × Rat) → Option Rat := fun a => (K ((x.1, (wl.2 : Rat)) :: a)).map (wl.1 * ·)
    have hfun : ∀ ap : List (Name × Rat) × Rat,
        (gK K ∘ fun (ap : List (Name × Rat) × Rat) => ((x.1, (wl.2 : Rat)) :: ap.1, wl.1 * ap.2)) ap = gK Kwl ap := by
      intro ap
      simp only [Function.comp, gK, Kwl, Option.map_map]
      congr 1
      funext v
      simp only [Function.comp]
      ring
    rw [List.map_congr_left (fun ap _ => hfun ap), List.map_congr_left (fun ap _ => hfun ap)]
    apply ih Kwl
    intro a a' haa hkeys
    simp only [Kwl]
    rw [hK _ _ (haa.cons _) (by simpa using hkeys.cons x.1)]
  | swap x y l =>
    intro K hK
    rw [nodesOf_cons, nodesOf_cons, nodesOf_cons, nodesOf_cons]
    simp only [List.map_flatMap, List.map_map]
    refine List.Perm.trans ?_ (flatMap_comm_perm _ _ _)
    apply List.Perm.flatMap_left
    intro wy _
    apply List.Perm.flatMap_left
    intro wx _
    apply List.Perm.of_eq
    apply List.map_congr_left
    intro ap hap
    simp only [Function.comp, gK]
    have hk := nodes_keys l ap hap
    rw [hK ((y.1, (wy.2 : Rat)) :: (x.1, (wx.2 : Rat)) :: ap.1) ((x.1, (wx.2 : Rat)) :: (y.1, (wy.2 : Rat)) :: ap.1)
      (List.Perm.swap _ _ _) (by simp [hk])]
    congr 1
    funext v
    ring
  | trans h1 h2 ih1 ih2 =>
    intro K hK
    refine (ih1 K hK).trans (ih2 K ?_)
    intro a a' haa hkeys
    exact hK a a' haa (hkeys.trans (h1.map (·.1)).symm)

/-- sum of a list of optional numbers; undefined as soon as one of them is -/
def seqSum : List (Option Rat) → Option Rat
  | [] => some 0
  | o :: l => o.bind fun v => (seqSum l).map (v + ·)

theorem seqSum_perm (l l' : List (Option Rat)) (h : l.Perm l') : seqSum l = seqSum l' := by
  induction h with
  | nil => rfl
  | cons x _ ih => simp only [seqSum, ih]
  | swap x y l =>
    simp only [seqSum]
    cases x <;> cases y <;> cases seqSum l <;> simp [Option.bind, Option.map]
    ring
  | trans _ _ ih1 ih2 => exact ih1.trans ih2

theorem foldlM_eq_seqSum (K : List (Name × Rat) → Option Rat) (nodes : List (List (Name × Rat) × Rat)) (acc : Rat) :
    nodes.foldlM (fun ac (p : List (Name × Rat) × Rat) => do let vn ← K p.1; pure (ac + p.2 * vn)) acc
      = (seqSum (nodes.map (gK K))).map (acc + ·) := by
  induction nodes generalizing acc with
  | nil => simp [seqSum]
  | cons p ps ih =>
    simp only [List.foldlM_cons, List.map_cons, seqSum, gK]
    cases K p.1 with
    | none => rfl
    | some v =>
      simp only [Option.bind_eq_bind, Option.bind_some, Option.pure_def, Option.map_some]
      have ih' := ih (acc + p.2 * v)
      simp only [Option.bind_eq_bind, Option.pure_def] at ih'
      rw [ih']
      cases seqSum (ps.map (gK K)) with
      | none => rfl
      | some s => simp only [Option.map_some]; congr 1; ring

theorem mapM_perm_option {α β : Type} (f : α → Option β) (l l' : List α) (h : l.Perm l') :
    (l.mapM f = none ∧ l'.mapM f = none) ∨ ∃ r r', l.mapM f = some r ∧ l'.mapM f = some r' ∧ r.Perm r' := by
  induction h with
  | nil => exact Or.inr ⟨[], [], rfl, rfl, List.Perm.refl _⟩
  | cons x _ ih =>
    simp only [List.mapM_cons]
    cases f x with
    | none => exact Or.inl ⟨rfl, rfl⟩
    | some b =>
      rcases ih with ⟨h1, h2⟩ | ⟨r, r', h1, h2, hp⟩
      · left; simp [h1, h2]
      · right; exact ⟨b :: r, b :: r', by simp [h1], by simp [h2], hp.cons b⟩
  | swap x y l =>
    simp only [List.mapM_cons]
    cases f x <;> cases f y <;> cases hl : l.mapM f <;> simp
    exact List.Perm.swap _ _ _
  | trans _ _ ih1 ih2 =>
    rcases ih1 with ⟨h1, h2⟩ | ⟨r, r', h1, h2, hp⟩
    · rcases ih2 with ⟨_, h4⟩ | ⟨s, s', h3, _, _⟩
      · exact Or.inl ⟨h1, h4⟩
      · rw [h2] at h3; simp at h3
    · rcases ih2 with ⟨h3, _⟩ | ⟨s, s', h3, h4, hp'⟩
      · rw [h2] at h3; simp at h3
      · rw [h2] at h3
        simp only [Option.some.injEq] at h3
        subst h3
        exact Or.inr ⟨r, s', h1, h4, hp.trans hp'⟩

#print axioms nodes_map_perm
end Lcm
