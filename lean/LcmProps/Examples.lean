import LcmModel.Solve
import LcmModel.Sim
namespace Lcm.Ex

/-! Concrete specifications used by the non-vacuity examples of the property files. -/

open Lcm

/-- the F1 witness (DESIGN §7): 2 periods, state `s ∈ {0,1,2}` excluded at `s = 0` in period 1 by a
period-dependent filter, choice `d ∈ {0,1}`, `utility = 10 s + d`, `next_s = max(s, 1)`, `β = 1` -/
def f1Model : Model :=
  { nPeriods := 2
    states := [("s", .disc 3)]
    choices := [("d", .disc 2)]
    functions := [
      { name := "utility", args := ["s", "d"], body := .add (.mul (.num 10) (.var "s")) (.var "d") },
      { name := "next_s", args := ["s"], body := .max (.var "s") (.num 1) },
      { name := "p_filter", args := ["s", "_period"],
        body := .or (.not (.eq (.var "s") (.num 0))) (.not (.eq (.var "_period") (.num 1))) } ] }

def f1Params : Params := { beta := 1, funcs := [], shocks := [] }

/-- a model without filters: one continuous state `w` on {0,1,2}, continuous choice `c` on {0,1,2},
discrete choice `d ∈ {0,1}`, constraint `c ≤ w`, `utility = 2c - c² /… ` (dyadic), `next_w = w - c` -/
def consModel : Model :=
  { nPeriods := 3
    states := [("w", .lin 0 2 3)]
    choices := [("c", .lin 0 2 3), ("d", .disc 2)]
    functions := [
      { name := "utility", args := ["c", "d", "kappa"],
        body := .sub (.add (.mul (.num 3) (.var "c")) (.mul (.var "kappa") (.var "d"))) (.mul (.var "c") (.var "c")) },
      { name := "next_w", args := ["w", "c"], body := .sub (.var "w") (.var "c") },
      { name := "budget_constraint", args := ["c", "w"], body := .le (.var "c") (.var "w") } ] }

def consParams : Params := { beta := 1/2, funcs := [("utility", [("kappa", 1/4)])], shocks := [] }

def flat (V : List (Tensor Ext)) : List (List Nat × List Ext) := V.map fun t => (t.shape, t.toFlat)

-- pinned numbers (compiled evaluation; a regression guard, not a theorem)
#guard flat (solve f1Model f1Params true) = [([3], [.fin 12, .fin 22, .fin 42]), ([2], [.fin 11, .fin 21])]
#guard (solve consModel consParams).length = 3
#guard ((solve consModel consParams).getD 2 default).toFlat = [.fin (1/4), .fin (9/4), .fin (9/4)]

end Lcm.Ex
