import LcmProofs.SolveFull
import LcmProofs.SpecRefine
import LcmProps.C06
import LcmProps.Examples
import LcmProofs.UtilityBody
import LcmProofs.InterpBounds
namespace Lcm

/-! # C01 — `solve()` returns the exact backward-induction (Bellman) solution on the grid

Model: `Lcm.solve` (`LcmModel/Solve.lean`), the executable, implementation-shaped model that the
driver runs against `get_lcm_function(model, "solve")` (op `solve`). The period objective is the model's
`uAndF` (`utility + beta * Σ_nodes (Π weights) * V̂(next state)`, `V̂` = `vhat`: exact lookup in discrete
states through the feasible-rank of period `t+1`, multilinear inter/extrapolation in continuous states;
no continuation in the last period) together with the combined constraint.

Statement of the property at full strength = `C01_entry_isMax_restricted` + `C01_entry_isMax_unrestricted`
(the two layouts of the value array) for the arrays `C01_backward_recursion` describes. JIT does not exist
in the model: "independent of JIT" is a correspondence obligation (both settings are run), not a theorem. -/

/-- one value array per period -/
theorem C01_length (m : Model) (P : Params) : (solve m P true).length = m.nPeriods :=
  solve_length m P true

/-- period `t` is computed from the array of period `t+1`; the last period has no continuation -/
theorem C01_backward_recursion (m : Model) (P : Params) (t : Nat) (ht : t < m.nPeriods) :
    (solve m P true).getD t default
      = solvePeriod m P (groups m) t (mkSpace m P (groups m) t) (nextOf m P (solve m P true) t) :=
  solve_getD m P t ht

theorem C01_no_continuation_in_last_period (m : Model) (P : Params) (V : List (Tensor Ext)) :
    nextOf m P V (m.nPeriods - 1) = none := by
  unfold nextOf
  split
  · omega
  · rfl

/-- **Bellman value, models with filter-restricted variables**: the entry for the `k`-th feasible
restricted-state combination, unrestricted discrete state `dIdx` and continuous node `xIdx` is the maximum
of the objective over all grid choice combinations that pass every filter and every constraint. -/
theorem C01_entry_isMax_restricted (m : Model) (P : Params) (t : Nat) (ht : t < m.nPeriods)
    (hsparse : (!((groups m).sS.isEmpty && (groups m).sC.isEmpty)) = true)
    (k : Nat) (hk : k < (feasOf m P t).length) (dIdx xIdx : List Nat)
    (hd : InBounds (sizes (groups m).dS) dIdx) (hx : InBounds (sizes (cStateGrids (groups m))) xIdx) :
    let g := groups m
    let next := nextOf m P (solve m P true) t
    IsMaxOver
      (fun x : List (Name × Rat) × (List (Name × Rat) × List (Name × Rat)) =>
        (x.1 ∈ assignments g.sC ∧ spaceFilt m P t ((feasOf m P t)[k]) x.1 = true) ∧
          (x.2.1 ∈ assignments g.dC ∧ (x.2.2 ∈ assignments g.cC ∧
            feasibleOf (objAt m P g t next ((feasOf m P t)[k]) dIdx xIdx x.1 x.2.1 x.2.2) = true)))
      (fun x => valueOf (objAt m P g t next ((feasOf m P t)[k]) dIdx xIdx x.1 x.2.1 x.2.2))
      (((solve m P true).getD t default).get (k :: (dIdx ++ xIdx))) :=
  solve_entry_isMax_restricted m P t ht hsparse k hk dIdx xIdx hd hx

/-- **Bellman value, models without filter-restricted variables.** -/
theorem C01_entry_isMax_unrestricted (m : Model) (P : Params) (t : Nat) (ht : t < m.nPeriods)
    (hdense : (!((groups m).sS.isEmpty && (groups m).sC.isEmpty)) = false)
    (dIdx xIdx : List Nat)
    (hd : InBounds (sizes (groups m).dS) dIdx) (hx : InBounds (sizes (cStateGrids (groups m))) xIdx) :
    let g := groups m
    let next := nextOf m P (solve m P true) t
    IsMaxOver
      (fun x : List (Name × Rat) × List (Name × Rat) =>
        x.1 ∈ assignments g.dC ∧ (x.2 ∈ assignments g.cC ∧
          feasibleOf (objAtDense m P g t next dIdx xIdx x.1 x.2) = true))
      (fun x => valueOf (objAtDense m P g t next dIdx xIdx x.1 x.2))
      (((solve m P true).getD t default).get (dIdx ++ xIdx)) :=
  solve_entry_isMax_unrestricted m P t ht hdense dIdx xIdx hd hx

/-- a state without any feasible choice has value −inf, and only such a state -/
theorem C01_ninf_iff_no_feasible_choice {X : Type} {P : X → Prop} {f : X → Rat} {v : Ext}
    (h : IsMaxOver P f v) : v = .ninf ↔ ∀ x, ¬ P x :=
  h.eq_ninf_iff

/-- an infeasible choice never determines a value: a finite value is the objective at a feasible choice -/
theorem C01_attained_at_feasible_choice {X : Type} {P : X → Prop} {f : X → Rat} {v : Ext}
    (h : IsMaxOver P f v) (hne : v ≠ .ninf) : ∃ x, P x ∧ v = .fin (f x) :=
  h.attained hne

/-- the Bellman value is unique: two arrays satisfying the specification agree entry-wise -/
theorem C01_value_unique {X : Type} {P : X → Prop} {f : X → Rat} {v w : Ext}
    (hv : IsMaxOver P f v) (hw : IsMaxOver P f w) : v = w :=
  hv.unique hw

/-- in the last period the objective is the utility alone -/
theorem C01_last_period_objective (m : Model) (P : Params) (g : Groups) (t : Nat) (env0 : Env) :
    uAndF m P g t none env0 = (do
      let f ← allTrue m P (env0 ++ periodEnv t) (((functionInfo m).filter (·.isConstraint)).map (·.name))
      let u ← (callF m P m.fuel (env0 ++ periodEnv t) "utility").map Val.toRat
      pure (u, f)) := by
  simp [uAndF]

-- non-vacuity: the hypotheses are met by concrete specifications, and the numbers are the Bellman values
-- (`#guard` = compiled evaluation; the kernel cannot reduce the `String` functions used by the name plumbing)
#guard 0 < Ex.f1Model.nPeriods ∧ (!((groups Ex.f1Model).sS.isEmpty && (groups Ex.f1Model).sC.isEmpty)) = true
#guard (!((groups Ex.consModel).sS.isEmpty && (groups Ex.consModel).sC.isEmpty)) = false
#guard (feasOf Ex.f1Model Ex.f1Params 1).length = 2 ∧ (feasOf Ex.f1Model Ex.f1Params 0).length = 3


/-! ## Refinement to the specification level

`specV` (`LcmModel/Spec.lean`) is the Bellman value by *plain enumeration*: all declared choices in declaration
order, one environment per combination, admissible = every filter and every constraint holds; no groups, no axes,
no feasible-rank, no arg-max chain. The harness uses it (driver ops `spec_v`, `sim_spec`) as the oracle side of the
pipeline properties; the two theorems below show that it is not a second, merely tested description: every stored
entry of `solve` *is* `specV` at the grid state the entry belongs to. The only hypothesis beyond the index bounds is
that the declared variable names are pairwise distinct (`Model` enforces it: dict keys, no name both state and
choice). -/

/-- models with filter-restricted variables -/
theorem C01_entry_eq_spec_restricted (m : Model) (P : Params) (t : Nat) (ht : t < m.nPeriods)
    (hsparse : (!((groups m).sS.isEmpty && (groups m).sC.isEmpty)) = true)
    (k : Nat) (hk : k < (feasOf m P t).length) (dIdx xIdx : List Nat)
    (hd : InBounds (sizes (groups m).dS) dIdx) (hx : InBounds (sizes (cStateGrids (groups m))) xIdx)
    (hnd : ((m.states ++ m.choices).map (·.1)).Nodup) :
    ((solve m P true).getD t default).get (k :: (dIdx ++ xIdx))
      = specV m P (groups m) t (nextOf m P (solve m P true) t)
          ((feasOf m P t)[k] ++ pickAt (groups m).dS dIdx ++ pickAt (cStateGrids (groups m)) xIdx) := by
  have hdl : dIdx.length = (groups m).dS.length := by rw [inBounds_length _ _ hd, sizes_length]
  have hxl : xIdx.length = (cStateGrids (groups m)).length := by rw [inBounds_length _ _ hx, sizes_length]
  have hsmem : (feasOf m P t)[k] ∈ feasOf m P t := List.getElem_mem hk
  have hs : (feasOf m P t)[k] ∈ assignments (groups m).sS := List.mem_of_mem_filter hsmem
  generalize hstdef : (feasOf m P t)[k] ++ pickAt (groups m).dS dIdx ++ pickAt (cStateGrids (groups m)) xIdx = st
  have h6 := C06_on_grid_value m P t ht hsparse k hk dIdx xIdx hd hx [st] 0 (by simp) (allNames_nodup m hnd)
    (by rw [← hstdef]; exact List.Perm.refl _)
  have hkeys : st.map (·.1) = (groups m).sS.map (·.1) ++ (groups m).dS.map (·.1) ++ (cStateGrids (groups m)).map (·.1) := by
    rw [← hstdef]
    simp only [List.map_append]
    rw [assignments_keys _ _ hs, pickAt_keys _ _ hdl, pickAt_keys _ _ hxl]
  have hspec := specAgent_best_eq_value m P t (simNext m P (solve m P true) t) [st] 0 (by simp) hnd
    (by show ((st).map (·.1) ++ _).Nodup; rw [hkeys]; exact gridState_choice_names_nodup m hnd)
    (by
      intro hsC
      show allTrue m P (toEnv st ++ periodEnv t) (filterNames m) = some true
      have hnil : (groups m).sC = [] := List.isEmpty_iff.mp hsC
      have hany : (assignments (groups m).sC).any (spaceFilt m P t ((feasOf m P t)[k])) = true :=
        (List.mem_filter.mp hsmem).2
      rw [hnil] at hany
      have h0 : spaceFilt m P t ((feasOf m P t)[k]) [] = true := by simpa [assignments] using hany
      unfold spaceFilt at h0
      have hframe : allTrue m P (toEnv st ++ periodEnv t) (filterNames m)
          = allTrue m P (toEnv ((feasOf m P t)[k] ++ []) ++ periodEnv t) (filterNames m) := by
        apply allTrue_frame
        intro f hf x hxa
        have hnot : x ∉ (pickAt (groups m).dS dIdx ++ pickAt (cStateGrids (groups m)) xIdx).map (·.1) := by
          rw [List.map_append, pickAt_keys _ _ hdl, pickAt_keys _ _ hxl]
          intro hmem
          rcases List.mem_append.mp hmem with h | h
          · exact dense_states_not_read_by_filters m x (Or.inl h) f hf hxa
          · exact dense_states_not_read_by_filters m x (Or.inr h) f hf hxa
        have := get?_skip_middle ((feasOf m P t)[k]) (pickAt (groups m).dS dIdx ++ pickAt (cStateGrids (groups m)) xIdx) []
          (periodEnv t) x hnot
        rw [← hstdef]
        simpa [List.append_assoc] using this
      rw [hframe]
      cases hA : allTrue m P (toEnv ((feasOf m P t)[k] ++ []) ++ periodEnv t) (filterNames m) with
      | none => rw [show allTrue m P (toEnv ((feasOf m P t)[k] ++ []) ++ periodEnv t)
            (((functionInfo m).filter (·.isFilter)).map (·.name)) = none from hA] at h0; simp at h0
      | some b => rw [show allTrue m P (toEnv ((feasOf m P t)[k] ++ []) ++ periodEnv t)
            (((functionInfo m).filter (·.isFilter)).map (·.name)) = some b from hA] at h0; simpa using h0)
    []
  rw [specV_eq_best m P (groups m) t _ st []]
  exact h6.symm.trans hspec.symm

/-- models without filter-restricted variables; `hfs`: filters that read no variable at all (the only filters such a
model can have) hold - `solve` does not evaluate them -/
theorem C01_entry_eq_spec_unrestricted (m : Model) (P : Params) (t : Nat) (ht : t < m.nPeriods)
    (hdense : (!((groups m).sS.isEmpty && (groups m).sC.isEmpty)) = false)
    (dIdx xIdx : List Nat)
    (hd : InBounds (sizes (groups m).dS) dIdx) (hx : InBounds (sizes (cStateGrids (groups m))) xIdx)
    (hnd : ((m.states ++ m.choices).map (·.1)).Nodup)
    (hfs : allTrue m P (toEnv (pickAt (groups m).dS dIdx ++ pickAt (cStateGrids (groups m)) xIdx) ++ periodEnv t)
      (filterNames m) = some true) :
    ((solve m P true).getD t default).get (dIdx ++ xIdx)
      = specV m P (groups m) t (nextOf m P (solve m P true) t)
          (pickAt (groups m).dS dIdx ++ pickAt (cStateGrids (groups m)) xIdx) := by
  have hdl : dIdx.length = (groups m).dS.length := by rw [inBounds_length _ _ hd, sizes_length]
  have hxl : xIdx.length = (cStateGrids (groups m)).length := by rw [inBounds_length _ _ hx, sizes_length]
  have hemp : ((groups m).sS.isEmpty && (groups m).sC.isEmpty) = true := by simpa using hdense
  simp only [Bool.and_eq_true, List.isEmpty_iff] at hemp
  generalize hstdef : pickAt (groups m).dS dIdx ++ pickAt (cStateGrids (groups m)) xIdx = st at hfs ⊢
  have h6 := C06_on_grid_value_unrestricted m P t ht hdense dIdx xIdx hd hx [st] 0 (by simp) (allNames_nodup m hnd)
    (by rw [← hstdef]; exact List.Perm.refl _)
  have hkeys : st.map (·.1) = (groups m).sS.map (·.1) ++ (groups m).dS.map (·.1) ++ (cStateGrids (groups m)).map (·.1) := by
    rw [← hstdef, hemp.1]
    simp only [List.map_append, List.map_nil, List.nil_append]
    rw [pickAt_keys _ _ hdl, pickAt_keys _ _ hxl]
  have hspec := specAgent_best_eq_value m P t (simNext m P (solve m P true) t) [st] 0 (by simp) hnd
    (by show ((st).map (·.1) ++ _).Nodup; rw [hkeys]; exact gridState_choice_names_nodup m hnd)
    (fun _ => hfs) []
  rw [specV_eq_best m P (groups m) t _ st []]
  exact h6.symm.trans hspec.symm

-- non-vacuity: the hypotheses hold on both example specifications and the two sides are the pinned numbers
example : ((Ex.f1Model.states ++ Ex.f1Model.choices).map (·.1)).Nodup := by decide
example : ((Ex.consModel.states ++ Ex.consModel.choices).map (·.1)).Nodup := by decide
#guard (feasOf Ex.f1Model Ex.f1Params 0).length == 3
#guard specV Ex.f1Model Ex.f1Params (groups Ex.f1Model) 0 (nextOf Ex.f1Model Ex.f1Params (solve Ex.f1Model Ex.f1Params) 0)
    ((feasOf Ex.f1Model Ex.f1Params 0)[2]! ++ pickAt (groups Ex.f1Model).dS [] ++ pickAt (cStateGrids (groups Ex.f1Model)) [])
  == ((solve Ex.f1Model Ex.f1Params).getD 0 default).get [2]
#guard specV Ex.consModel Ex.consParams (groups Ex.consModel) 1 (nextOf Ex.consModel Ex.consParams (solve Ex.consModel Ex.consParams) 1)
    (pickAt (groups Ex.consModel).dS [] ++ pickAt (cStateGrids (groups Ex.consModel)) [2])
  == ((solve Ex.consModel Ex.consParams).getD 1 default).get [2]
#guard filterNames Ex.consModel == []

/-! ## an infeasible choice never determines a value

The utility of the implementation may be `+inf`, `-inf` or `nan` at a choice that a constraint excludes (a division whose
divisor vanishes exactly there); the model renders this as "utility undefined" (`Expr.div`, `none`). The statement of C01
is that such values are never seen: -/

/-- **two specifications whose utilities agree wherever all constraints hold - whatever they return, or fail to return,
elsewhere - have the same solution, every period** -/
theorem C01_infeasible_choice_never_determines_a_value {m m' : Model} {P : Params}
    (h : UtilityAgreesOnFeasible m m' P) : solve m' P true = solve m P true :=
  solve_eq_of_utility_agrees_on_feasible h

/-- the same for the objective of one state-choice combination: the feasibility flags coincide and so do the values of
the feasible combinations (what the masked maximum of `solve` and the arg-max chain of `simulate` read) -/
theorem C01_objective_agrees_on_feasible {m m' : Model} {P : Params} (h : UtilityAgreesOnFeasible m m' P)
    (g : Groups) (t : Nat) (next : Option (Tensor Ext × List (List (Name × Rat)))) (env0 : Env) :
    feasibleOf (uAndF m' P g t next env0) = feasibleOf (uAndF m P g t next env0) ∧
      (feasibleOf (uAndF m P g t next env0) = true → uAndF m' P g t next env0 = uAndF m P g t next env0) :=
  h.uAndF g t next env0

/-- instance: the body of `utility` rewritten by any `F` such that the new utility evaluates like the old one wherever all
constraints hold (hypotheses: no function takes the *value* of utility as an argument; no filter, constraint or transition
is called `utility`) -/
theorem C01_rewritten_utility_same_solution (m : Model) (F : Expr → Expr) (P : Params)
    (hno : ∀ f ∈ m.functions, "utility" ∉ f.args)
    (hnames : ∀ fi ∈ functionInfo m, (fi.isConstraint = true ∨ fi.isFilter = true ∨ fi.isNext = true) → fi.name ≠ "utility")
    (hutil : ∀ env, allTrue m P env (constraintNames m) = some true → utilOf (withUtility m F) P env = utilOf m P env) :
    solve (withUtility m F) P true = solve m P true :=
  solve_eq_of_utility_agrees_on_feasible (utilityAgreesOnFeasible_with m F P hno hnames hutil)

namespace Ex
/-- `consModel` with a utility that also lists `w` -/
def consModelW : Model :=
  { consModel with functions := consModel.functions.map fun f =>
      if f.name == "utility" then { f with args := ["c", "d", "w", "kappa"] } else f }
/-- adds `1 / (min(w - c, 0) + 1) - 1`: zero wherever `c ≤ w`, undefined (division by zero) where `c = w + 1` -/
def divTerm (body : Expr) : Expr :=
  .add body (.sub (.div (.num 1) (.add (.min (.sub (.var "w") (.var "c")) (.num 0)) (.num 1))) (.num 1))
end Ex

-- the structural hypotheses hold on the example; the rewritten utility is undefined at an infeasible choice and the
-- solutions coincide (a test of the statement on one specification, not a proof of `hutil` for it)
example : ∀ f ∈ Ex.consModelW.functions, "utility" ∉ f.args := by decide +kernel
#guard (functionInfo Ex.consModelW).all fun fi => !(fi.isConstraint || fi.isFilter || fi.isNext) || fi.name != "utility"
#guard utilOf (withUtility Ex.consModelW Ex.divTerm) Ex.consParams (toEnv [("w", 0), ("c", 1), ("d", 0)]) == none
#guard utilOf Ex.consModelW Ex.consParams (toEnv [("w", 0), ("c", 1), ("d", 0)]) == some 2
#guard utilOf (withUtility Ex.consModelW Ex.divTerm) Ex.consParams (toEnv [("w", 1), ("c", 1), ("d", 1)]) == some (9/4)
#guard Ex.flat (solve (withUtility Ex.consModelW Ex.divTerm) Ex.consParams) == Ex.flat (solve Ex.consModelW Ex.consParams)
#guard Ex.flat (solve Ex.consModelW Ex.consParams) == Ex.flat (solve Ex.consModel Ex.consParams)

/-- the continuation value that enters the Bellman maximand (`interpExt` on next period's array, entries in `Rat ∪ {-inf}`):
whenever it is defined and the next state lies inside the grid of every continuous axis, it lies within the range of the
finite next-period values - interpolation inside the grid never invents a value above the best or below the worst stored
one, for any number of continuous states. (Outside the grid the outermost segment is continued and the bound fails.) -/
theorem C01_continuation_value_within_range_inside_grid (t : Tensor Ext) (cs : List Rat) (L U : Rat)
    (hlen : cs.length = t.shape.length) (h2 : ∀ n ∈ t.shape, 2 ≤ n)
    (hin : ∀ p ∈ cs.zip t.shape, 0 ≤ p.1 ∧ p.1 ≤ (p.2 : Rat) - 1)
    (hb : ∀ idx v, InBounds t.shape idx → t.get idx = .fin v → L ≤ v ∧ v ≤ U)
    (q : Rat) (hq : interpExt t cs = some q) : L ≤ q ∧ q ≤ U :=
  interpExt_bounds t cs L U hlen h2 hin hb q hq

-- defined and inside: within range; outside: beyond the largest stored value; next to -inf: undefined
example : let t : Tensor Ext := { shape := [2], get := fun idx => .fin (1 + 2 * (idx.headD 0 : Nat)) }
    interpExt t [1/2] = some 2 ∧ interpExt t [2] = some 5 := by decide +kernel
example : let t : Tensor Ext := { shape := [2], get := fun idx => if idx.headD 0 = 0 then .ninf else .fin 1 }
    interpExt t [1/2] = none := by decide +kernel

end Lcm
