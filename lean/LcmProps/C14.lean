import LcmModel.FuncRep
import LcmProofs.InterpT
import LcmProofs.InterpBounds
namespace Lcm

/-! # C14 — pre-computed values on a grid are represented as a faithful function

Model: `functionRepresentation` (`LcmModel/FuncRep.lean`) = the DAG built by `get_function_representation`:
labels → positions (identity), indexer lookup for restricted states, positional lookup on the leading axes,
coordinate finders, `map_coordinates` (`interp`) along the trailing axes in the order of `axis_names`;
`_fail_if_interpolation_axes_are_not_last`. Log grids enter the exact model as tabulated nodes (`Grid.tab`,
coordinate by search); `C15_log_*` relate the code's formula to the cell found by the search. -/

/-- interpolation axes not last ⇒ ValueError when the function is built -/
theorem C14_axes_guard (si : SpaceInfo) (pfx : String) (arrays : Name → Option (Tensor Int)) (V : Tensor Rat)
    (env : Name → Option Rat) (h : interpolationAxesLast si = false) :
    functionRepresentation si pfx arrays V env = .error .valueError := by
  unfold functionRepresentation
  simp only [h, Bool.not_false, if_true]
  rfl

/-- without continuous axes the function is the exact lookup of the stored entry selected by the labels -/
theorem C14_discrete_exact (V : Tensor Rat) (positions : List Nat) :
    interp { shape := V.shape.drop positions.length, get := fun idx => V.get (positions ++ idx) } []
      = V.get positions := by
  simp [interp]

/-- stored values are reproduced at grid nodes: after the discrete selection, integer coordinates (= the
coordinates of grid nodes, `C15_lin_coord_node`) return the stored entry, for any number of continuous axes -/
theorem C14_nodes (V : Tensor Rat) (positions idx : List Nat)
    (hb : InBounds (V.shape.drop positions.length) idx) (h2 : ∀ n ∈ V.shape.drop positions.length, 2 ≤ n) :
    interp { shape := V.shape.drop positions.length, get := fun i => V.get (positions ++ i) }
      (idx.map fun (i : Nat) => (i : Rat)) = V.get (positions ++ idx) :=
  interp_nodes { shape := V.shape.drop positions.length, get := fun i => V.get (positions ++ i) } idx hb h2

/-- linear in each continuous variable between neighbouring nodes: for a fixed cell the value is affine in
the coordinate, and on a linear grid the coordinate is affine in the variable -/
theorem C14_cellwise_linear (t : Tensor Rat) (a b : Rat) (n : Nat) (v : Rat) (cs : List Rat) :
    let c := coordOf (.lin a b n) v
    let lo := lowerIdx' c (t.shape.headD 0)
    interp t (c :: cs) = interp (t.slice lo) cs
      + ((v - a) / ((b - a) / ((n : Rat) - 1)) - (lo : Rat)) * (interp (t.slice (lo + 1)) cs - interp (t.slice lo) cs) :=
  interp_affine_in_coord t _ cs

/-- outside a linear grid the outermost segment is continued linearly: beyond the last node the cell is the
last cell, before the first node the first cell (so `C14_cellwise_linear` applies with that cell) -/
theorem C14_extrapolation (a b : Rat) (n : Nat) (hab : a < b) (hn : 2 ≤ n) (v : Rat) :
    (b ≤ v → lowerIdx' (coordOf (.lin a b n) v) n = n - 2) ∧
    (v ≤ a → lowerIdx' (coordOf (.lin a b n) v) n = 0) := by
  have hs := step_pos_rat a b n hab hn
  have hne : (n : Rat) - 1 ≠ 0 := by
    have : (2 : Rat) ≤ n := by exact_mod_cast hn
    linarith
  constructor
  · intro hv
    have hc : ((n : Rat) - 1) ≤ coordOf (.lin a b n) v := by
      simp only [coordOf]
      rw [le_div_iff₀ hs]
      have : ((n : Rat) - 1) * ((b - a) / ((n : Rat) - 1)) = b - a := by field_simp
      rw [this]; linarith
    unfold lowerIdx'
    have hf : ((n : Int) - 1) ≤ (coordOf (.lin a b n) v).floor := by
      rw [Rat.le_floor_iff]; push_cast; exact hc
    have : min (coordOf (.lin a b n) v).floor ((n : Int) - 2) = (n : Int) - 2 := by omega
    rw [this]; omega
  · intro hv
    have hc : coordOf (.lin a b n) v ≤ 0 := by
      simp only [coordOf]
      exact div_nonpos_of_nonpos_of_nonneg (by linarith) hs.le
    unfold lowerIdx'
    have h0 : (0 : Rat).floor = 0 := by decide +kernel
    have hf : (coordOf (.lin a b n) v).floor ≤ 0 := by
      have := Rat.floor_monotone hc
      rw [h0] at this; exact this
    have : max 0 (min (coordOf (.lin a b n) v).floor ((n : Int) - 2)) = 0 := by omega
    rw [this]; rfl

/-- no overshoot inside the grid: when every continuous variable lies between the first and the last node of its axis
(coordinate in `[0, size - 1]`) and the stored values lie in `[L, U]`, so does the value of the represented function - for
any number of continuous axes. (Outside the grid the outermost segment is continued, `C14_extrapolation`, and the bound
does not hold.) -/
theorem C14_no_overshoot_inside_grid (t : Tensor Rat) (cs : List Rat) (L U : Rat)
    (hlen : cs.length = t.shape.length) (h2 : ∀ n ∈ t.shape, 2 ≤ n)
    (hin : ∀ p ∈ cs.zip t.shape, 0 ≤ p.1 ∧ p.1 ≤ (p.2 : Rat) - 1)
    (hb : ∀ idx, InBounds t.shape idx → L ≤ t.get idx ∧ t.get idx ≤ U) :
    L ≤ interp t cs ∧ interp t cs ≤ U :=
  interp_bounds t cs L U hlen h2 hin hb

/-- the premises are satisfiable (a 2 x 2 array with entries in [1, 4], evaluated inside), and the bound fails outside the grid -/
example : let t : Tensor Rat := { shape := [2, 2], get := fun idx => 1 + 2 * (idx.headD 0 : Nat) + ((idx.tail.headD 0 : Nat) : Rat) }
    (1 ≤ interp t [1/2, 1/3] ∧ interp t [1/2, 1/3] ≤ 4) ∧ ¬ (interp t [2, 0] ≤ 4) := by
  decide +kernel

/-- the restricted states enter only through the indexer: the position on the leading axis is the entry of
the indexer array at the labels (a negative entry = infeasible combination is outside the model) -/
theorem C14_label_positions (q : Rat) (k : Nat) (h : labelPos q = some k) : q = (k : Rat) := by
  unfold labelPos at h
  split at h
  · next hq =>
    have hk : k = q.num.toNat := by simpa using h.symm
    have hcast : ((q.num.toNat : Nat) : Rat) = (q.num : Rat) := by
      have : ((q.num.toNat : Nat) : Int) = q.num := Int.toNat_of_nonneg hq.2
      exact_mod_cast this
    have hq' : q = (q.num : Rat) := by
      conv_lhs => rw [← Rat.num_div_den q, hq.1]
      simp
    rw [hk, hcast]; exact hq'
  · simp at h

-- non-vacuity: one restricted state with feasibility mask [0, −1, 1], one continuous state on {0, 1, 2}
def exSpaceInfo : SpaceInfo :=
  { axisNames := ["state_index", "w"], lookup := ["s"], interp := [("w", .lin 0 2 3)],
    indexers := [{ axisNames := ["s"], name := "state_indexer", outName := "state_index" }] }
def exIndexer : Tensor Int := { shape := [3], get := fun idx => [0, -1, 1].getD (idx.headD 0) (-1) }
def exV : Tensor Rat := { shape := [2, 3], get := fun idx => [1, 2, 4, 10, 20, 40].getD (ravel [2, 3] idx) 0 }
def exEval (s w : Rat) : Option Rat :=
  (functionRepresentation exSpaceInfo "next_" (fun n => if n == "state_indexer" then some exIndexer else none) exV
    (fun n => if n == "next_s" then some s else if n == "next_w" then some w else none)).toOption
#guard exEval 2 1 = some 20 ∧ exEval 2 (3/2) = some 30 ∧ exEval 0 3 = some 6 ∧ exEval 1 0 = none

end Lcm
