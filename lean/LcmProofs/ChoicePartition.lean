import LcmProofs.Layout
import LcmProofs.EnvPerm
import Mathlib.Data.List.Forall2
namespace Lcm

/-! The three choice groups of `groups m` (filter-restricted, unrestricted discrete, continuous) are a
partition of the declared choices, and the grid combinations of a permuted list of named grids are the
permuted grid combinations. Used to relate enumeration in declaration order (specification level) to the
group-wise enumeration of `solve` / `simulate`. -/

theorem variableInfo_sparse_choices (m : Model) :
    (variableInfo m).filter (fun v => v.isSparse && v.isChoice)
      = (declaredInfo m).filter (fun v => v.isSparse && v.isChoice) := by
  rw [variableInfo_eq]
  simp only [List.filter_append, List.filter_filter]
  rw [filter_key _ _ (fun v => v.isSparse && v.isState) (by grp m),
    filter_keep _ _ (fun v => v.isSparse && v.isChoice) (by grp m),
    filter_key _ _ (fun v => v.isDense && v.isDiscrete && v.isState) (by grp m),
    filter_key _ _ (fun v => v.isDense && v.isDiscrete && v.isChoice) (by grp m),
    filter_key _ _ (fun v => v.isDense && v.isContinuous && v.isState) (by grp m),
    filter_key _ _ (fun v => v.isDense && v.isContinuous && v.isChoice) (by grp m)]
  simp

theorem variableInfo_dense_discrete_choices (m : Model) :
    (variableInfo m).filter (fun v => v.isDense && v.isDiscrete && v.isChoice)
      = (declaredInfo m).filter (fun v => v.isDense && v.isDiscrete && v.isChoice) := by
  rw [variableInfo_eq]
  simp only [List.filter_append, List.filter_filter]
  rw [filter_key _ _ (fun v => v.isSparse && v.isState) (by grp m),
    filter_key _ _ (fun v => v.isSparse && v.isChoice) (by grp m),
    filter_key _ _ (fun v => v.isDense && v.isDiscrete && v.isState) (by grp m),
    filter_keep _ _ (fun v => v.isDense && v.isDiscrete && v.isChoice) (by grp m),
    filter_key _ _ (fun v => v.isDense && v.isContinuous && v.isState) (by grp m),
    filter_key _ _ (fun v => v.isDense && v.isContinuous && v.isChoice) (by grp m)]
  simp

theorem variableInfo_continuous_choices (m : Model) :
    (variableInfo m).filter (fun v => v.isDense && v.isContinuous && v.isChoice)
      = (declaredInfo m).filter (fun v => v.isDense && v.isContinuous && v.isChoice) := by
  rw [variableInfo_eq]
  simp only [List.filter_append, List.filter_filter]
  rw [filter_key _ _ (fun v => v.isSparse && v.isState) (by grp m),
    filter_key _ _ (fun v => v.isSparse && v.isChoice) (by grp m),
    filter_key _ _ (fun v => v.isDense && v.isDiscrete && v.isState) (by grp m),
    filter_key _ _ (fun v => v.isDense && v.isDiscrete && v.isChoice) (by grp m),
    filter_key _ _ (fun v => v.isDense && v.isContinuous && v.isState) (by grp m),
    filter_keep _ _ (fun v => v.isDense && v.isContinuous && v.isChoice) (by grp m)]
  simp

/-- three predicates of which exactly one holds on every element partition the list -/
theorem perm_three_filters {α} (l : List α) (p q r : α → Bool)
    (h : ∀ v ∈ l, (p v = true ∧ q v = false ∧ r v = false) ∨ (p v = false ∧ q v = true ∧ r v = false) ∨
      (p v = false ∧ q v = false ∧ r v = true)) :
    (l.filter p ++ l.filter q ++ l.filter r).Perm l := by
  induction l with
  | nil => simp
  | cons a l ih =>
    have ih' := ih (fun v hv => h v (List.mem_cons_of_mem _ hv))
    rcases h a (by simp) with ⟨h1, h2, h3⟩ | ⟨h1, h2, h3⟩ | ⟨h1, h2, h3⟩
    · simp only [List.filter_cons, h1, h2, h3, if_true, Bool.false_eq_true, if_false, List.cons_append]
      exact ih'.cons a
    · simp only [List.filter_cons, h1, h2, h3, if_true, Bool.false_eq_true, if_false]
      refine List.Perm.trans ?_ (ih'.cons a)
      rw [List.append_assoc, List.append_assoc]
      exact (List.perm_middle).trans (by rw [← List.append_assoc]; simp)
    · simp only [List.filter_cons, h1, h2, h3, if_true, Bool.false_eq_true, if_false]
      refine List.Perm.trans ?_ (ih'.cons a)
      exact List.perm_middle

theorem find?_key_of_nodup' {β} (l : List (Name × β)) (hnd : (l.map (·.1)).Nodup) (p : Name × β) (hp : p ∈ l) :
    l.find? (fun q => q.1 == p.1) = some p := by
  induction l with
  | nil => simp at hp
  | cons q l ih =>
    simp only [List.map_cons, List.nodup_cons] at hnd
    rcases List.mem_cons.mp hp with rfl | hmem
    · simp [List.find?]
    · have hne : (q.1 == p.1) = false := by
        rw [beq_eq_false_iff_ne]
        intro h
        exact hnd.1 (h ▸ List.mem_map_of_mem (f := (·.1)) hmem)
      simp only [List.find?, hne]
      exact ih hnd.2 hmem

/-- the grid a name is declared with (`gridOf` of `groups`) -/
def gridOf (m : Model) (x : Name) : Grid := (((m.states ++ m.choices).find? (·.1 == x)).map (·.2)).getD (.disc 0)

theorem gridOf_choice (m : Model) (hnd : ((m.states ++ m.choices).map (·.1)).Nodup) (p : Name × Grid)
    (hp : p ∈ m.choices) : gridOf m p.1 = p.2 := by
  unfold gridOf
  rw [find?_key_of_nodup' _ hnd p (List.mem_append_right _ hp)]
  rfl

theorem gridOf_state (m : Model) (hnd : ((m.states ++ m.choices).map (·.1)).Nodup) (p : Name × Grid)
    (hp : p ∈ m.states) : gridOf m p.1 = p.2 := by
  unfold gridOf
  rw [find?_key_of_nodup' _ hnd p (List.mem_append_left _ hp)]
  rfl

/-- a choice group of `groups m` is the declaration-order sublist of the declared choices with the group's flags -/
theorem pick_choices (m : Model) (q : VariableInfo → Bool) (hq : ∀ v, q v = true → v.isChoice = true) :
    ((declaredInfo m).filter q).map (fun v => (v.name, (gridOf m v.name).points))
      = ((((declaredInfo m).filter (·.isChoice)).filter q).map fun v => (v.name, (gridOf m v.name).points)) := by
  rw [List.filter_filter]
  congr 1
  apply List.filter_congr
  intro v _
  cases h : q v
  · simp
  · simp [hq v h]

theorem groups_sC (m : Model) : (groups m).sC
    = ((declaredInfo m).filter (fun v => v.isSparse && v.isChoice)).map (fun v => (v.name, (gridOf m v.name).points)) := by
  show ((variableInfo m).filter _).map _ = _
  rw [variableInfo_sparse_choices]; rfl

theorem groups_dC (m : Model) : (groups m).dC
    = ((declaredInfo m).filter (fun v => v.isDense && v.isDiscrete && v.isChoice)).map (fun v => (v.name, (gridOf m v.name).points)) := by
  show ((variableInfo m).filter _).map _ = _
  rw [variableInfo_dense_discrete_choices]; rfl

theorem groups_cC (m : Model) : (groups m).cC
    = ((declaredInfo m).filter (fun v => v.isDense && v.isContinuous && v.isChoice)).map (fun v => (v.name, (gridOf m v.name).points)) := by
  show ((variableInfo m).filter _).map _ = _
  rw [variableInfo_continuous_choices]; rfl

/-- flags of a declared variable (the `mk` of `get_variable_info`) -/
def mkInfo (m : Model) (isState : Bool) (p : Name × Grid) : VariableInfo :=
  let fi := functionInfo m
  let filterNames := (fi.filter (·.isFilter)).map (·.name)
  let filtered := ancestors m filterNames
  let nonNext := (fi.filter (!·.isNext)).map (·.name)
  let usedOutsideNext := nonNext ++ ancestors m nonNext
  let stoch := isState && ((fi.find? (·.name == "next_" ++ p.1)).map (·.isStochasticNext)).getD false
  let sparse := filtered.contains p.1
  { name := p.1, isState, isChoice := !isState, isContinuous := p.2.isContinuous,
    isDiscrete := !p.2.isContinuous, isStochastic := stoch,
    isAuxiliary := isState && !usedOutsideNext.contains p.1,
    isSparse := sparse, isDense := !sparse }

theorem declaredInfo_mk (m : Model) :
    declaredInfo m = m.states.map (mkInfo m true) ++ m.choices.map (mkInfo m false) := rfl

/-- the declared choices, flagged -/
theorem declaredChoices_eq (m : Model) : (declaredInfo m).filter (·.isChoice) = m.choices.map (mkInfo m false) := by
  rw [declaredInfo_mk, List.filter_append]
  have h1 : (m.states.map (mkInfo m true)).filter (·.isChoice) = [] := by
    rw [List.filter_eq_nil_iff]; intro v hv; rw [List.mem_map] at hv; obtain ⟨p, _, rfl⟩ := hv; simp [mkInfo]
  have h2 : (m.choices.map (mkInfo m false)).filter (·.isChoice) = m.choices.map (mkInfo m false) := by
    rw [List.filter_eq_self]; intro v hv; rw [List.mem_map] at hv; obtain ⟨p, _, rfl⟩ := hv; simp [mkInfo]
  rw [h1, h2, List.nil_append]

/-- **the three choice groups are a partition of the declared choices** (each in declaration order) -/
theorem choices_perm (m : Model) (hnd : ((m.states ++ m.choices).map (·.1)).Nodup) :
    ((groups m).sC ++ (groups m).dC ++ (groups m).cC).Perm (m.choices.map fun p => (p.1, p.2.points)) := by
  rw [groups_sC, groups_dC, groups_cC]
  rw [pick_choices m _ (by intro v hv; simp only [Bool.and_eq_true] at hv; exact hv.2),
    pick_choices m _ (by intro v hv; simp only [Bool.and_eq_true] at hv; exact hv.2),
    pick_choices m _ (by intro v hv; simp only [Bool.and_eq_true] at hv; exact hv.2)]
  rw [← List.map_append, ← List.map_append]
  have hpart := perm_three_filters ((declaredInfo m).filter (·.isChoice))
    (fun v => v.isSparse && v.isChoice) (fun v => v.isDense && v.isDiscrete && v.isChoice)
    (fun v => v.isDense && v.isContinuous && v.isChoice) (by
      intro v hv
      rw [List.mem_filter] at hv
      obtain ⟨h1, h2, h3⟩ := declaredInfo_inv m v hv.1
      have hc : v.isChoice = true := hv.2
      simp only [h2, h3, hc]
      cases v.isSparse <;> cases v.isContinuous <;> simp)
  refine (hpart.map _).trans ?_
  -- the flagged declared choices, mapped to (name, points), are the declared choices
  apply List.Perm.of_eq
  rw [declaredChoices_eq, List.map_map]
  apply List.map_congr_left
  intro p hp
  show ((mkInfo m false p).name, (gridOf m (mkInfo m false p).name).points) = (p.1, p.2.points)
  show (p.1, (gridOf m p.1).points) = (p.1, p.2.points)
  rw [gridOf_choice m hnd p hp]

#print axioms choices_perm

/-! names only: every group is a flagged sublist of the declared variables, and the six groups partition them -/

theorem declaredStates_eq (m : Model) : (declaredInfo m).filter (·.isState) = m.states.map (mkInfo m true) := by
  rw [declaredInfo_mk, List.filter_append]
  have h1 : (m.choices.map (mkInfo m false)).filter (·.isState) = [] := by
    rw [List.filter_eq_nil_iff]; intro v hv; rw [List.mem_map] at hv; obtain ⟨p, _, rfl⟩ := hv; simp [mkInfo]
  have h2 : (m.states.map (mkInfo m true)).filter (·.isState) = m.states.map (mkInfo m true) := by
    rw [List.filter_eq_self]; intro v hv; rw [List.mem_map] at hv; obtain ⟨p, _, rfl⟩ := hv; simp [mkInfo]
  rw [h1, h2, List.append_nil]

theorem filter_sub {α} (l : List α) (q r : α → Bool) (h : ∀ v, q v = true → r v = true) :
    l.filter q = (l.filter r).filter q := by
  rw [List.filter_filter]
  apply List.filter_congr
  intro v _
  cases hq : q v
  · simp
  · simp [h v hq]

theorem names_sS (m : Model) : (groups m).sS.map (·.1)
    = ((declaredInfo m).filter (fun v => v.isSparse && v.isState)).map (·.name) := by
  show (((variableInfo m).filter _).map _).map _ = _
  rw [variableInfo_sparse_states, List.map_map]; rfl
theorem names_sC (m : Model) : (groups m).sC.map (·.1)
    = ((declaredInfo m).filter (fun v => v.isSparse && v.isChoice)).map (·.name) := by
  show (((variableInfo m).filter _).map _).map _ = _
  rw [variableInfo_sparse_choices, List.map_map]; rfl
theorem names_dS (m : Model) : (groups m).dS.map (·.1)
    = ((declaredInfo m).filter (fun v => v.isDense && v.isDiscrete && v.isState)).map (·.name) := by
  show (((variableInfo m).filter _).map _).map _ = _
  rw [variableInfo_dense_discrete_states, List.map_map]; rfl
theorem names_dC (m : Model) : (groups m).dC.map (·.1)
    = ((declaredInfo m).filter (fun v => v.isDense && v.isDiscrete && v.isChoice)).map (·.name) := by
  show (((variableInfo m).filter _).map _).map _ = _
  rw [variableInfo_dense_discrete_choices, List.map_map]; rfl
theorem names_cS (m : Model) : (cStateGrids (groups m)).map (·.1)
    = ((declaredInfo m).filter (fun v => v.isDense && v.isContinuous && v.isState)).map (·.name) := by
  show ((((variableInfo m).filter _).map _).map _).map _ = _
  rw [variableInfo_continuous_states, List.map_map, List.map_map]; rfl
theorem names_cC (m : Model) : (groups m).cC.map (·.1)
    = ((declaredInfo m).filter (fun v => v.isDense && v.isContinuous && v.isChoice)).map (·.name) := by
  show (((variableInfo m).filter _).map _).map _ = _
  rw [variableInfo_continuous_choices, List.map_map]; rfl

/-- the three state groups partition the declared states (names) -/
theorem state_names_perm (m : Model) :
    ((groups m).sS.map (·.1) ++ (groups m).dS.map (·.1) ++ (cStateGrids (groups m)).map (·.1)).Perm (m.states.map (·.1)) := by
  rw [names_sS, names_dS, names_cS]
  rw [filter_sub (declaredInfo m) (fun v => v.isSparse && v.isState) (·.isState) (by intro v hv; simp only [Bool.and_eq_true] at hv; exact hv.2),
    filter_sub (declaredInfo m) (fun v => v.isDense && v.isDiscrete && v.isState) (·.isState) (by intro v hv; simp only [Bool.and_eq_true] at hv; exact hv.2),
    filter_sub (declaredInfo m) (fun v => v.isDense && v.isContinuous && v.isState) (·.isState) (by intro v hv; simp only [Bool.and_eq_true] at hv; exact hv.2)]
  rw [← List.map_append, ← List.map_append]
  have hpart := perm_three_filters ((declaredInfo m).filter (·.isState))
    (fun v => v.isSparse && v.isState) (fun v => v.isDense && v.isDiscrete && v.isState)
    (fun v => v.isDense && v.isContinuous && v.isState) (by
      intro v hv
      rw [List.mem_filter] at hv
      obtain ⟨h1, h2, h3⟩ := declaredInfo_inv m v hv.1
      have hc : v.isState = true := hv.2
      simp only [h2, h3, hc]
      cases v.isSparse <;> cases v.isContinuous <;> simp)
  refine (hpart.map _).trans ?_
  apply List.Perm.of_eq
  rw [declaredStates_eq, List.map_map]
  rfl

/-- the three choice groups partition the declared choices (names) -/
theorem choice_names_perm (m : Model) :
    ((groups m).sC.map (·.1) ++ (groups m).dC.map (·.1) ++ (groups m).cC.map (·.1)).Perm (m.choices.map (·.1)) := by
  rw [names_sC, names_dC, names_cC]
  rw [filter_sub (declaredInfo m) (fun v => v.isSparse && v.isChoice) (·.isChoice) (by intro v hv; simp only [Bool.and_eq_true] at hv; exact hv.2),
    filter_sub (declaredInfo m) (fun v => v.isDense && v.isDiscrete && v.isChoice) (·.isChoice) (by intro v hv; simp only [Bool.and_eq_true] at hv; exact hv.2),
    filter_sub (declaredInfo m) (fun v => v.isDense && v.isContinuous && v.isChoice) (·.isChoice) (by intro v hv; simp only [Bool.and_eq_true] at hv; exact hv.2)]
  rw [← List.map_append, ← List.map_append]
  have hpart := perm_three_filters ((declaredInfo m).filter (·.isChoice))
    (fun v => v.isSparse && v.isChoice) (fun v => v.isDense && v.isDiscrete && v.isChoice)
    (fun v => v.isDense && v.isContinuous && v.isChoice) (by
      intro v hv
      rw [List.mem_filter] at hv
      obtain ⟨h1, h2, h3⟩ := declaredInfo_inv m v hv.1
      have hc : v.isChoice = true := hv.2
      simp only [h2, h3, hc]
      cases v.isSparse <;> cases v.isContinuous <;> simp)
  refine (hpart.map _).trans ?_
  apply List.Perm.of_eq
  rw [declaredChoices_eq, List.map_map]
  rfl

end Lcm
