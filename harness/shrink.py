"""Structural shrinking of a failing specification (DESIGN section 4): drop periods, functions,
variables, parameter sets while the same violation clause persists."""
from __future__ import annotations

import copy


def _still_fails(case, run_case, clause):
    try:
        out = run_case(case)
    except Exception:  # noqa: BLE001
        return None
    for v in out.get("violations", []):
        if v.get("clause") == clause:
            v["case"] = case
            return v
    return None


def shrink_model_case(v, run_case, budget=40):
    base = v.get("shrink_case")
    if base is None:
        return v
    clause = v.get("clause")
    best = _still_fails(base, run_case, clause)
    if best is None:
        return v
    cur = base
    tries = 0
    changed = True
    while changed and tries < budget:
        changed = False
        cands = []
        m = cur["model"]
        if m["n_periods"] > 1:
            c = copy.deepcopy(cur)
            c["model"]["n_periods"] -= 1
            # shock arrays depending on _period keep their shape only if we do not touch them: skip when stochastic
            if not any(f.get("stochastic") for f in m["functions"]):
                cands.append(c)
        for i, f in enumerate(m["functions"]):
            if f["name"].endswith(("_constraint", "_filter")):
                c = copy.deepcopy(cur)
                del c["model"]["functions"][i]
                for p in c["params"]:
                    p["funcs"].pop(f["name"], None)
                cands.append(c)
        if len(cur["params"]) > 1:
            for i in range(len(cur["params"])):
                c = copy.deepcopy(cur)
                c["params"] = [c["params"][i]]
                cands.append(c)
        for c in cands:
            tries += 1
            w = _still_fails(c, run_case, clause)
            if w is not None:
                cur, best, changed = c, w, True
                break
            if tries >= budget:
                break
    return best
