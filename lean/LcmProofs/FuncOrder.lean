import LcmProofs.ChoicePerm
import LcmProofs.NodesPerm
namespace Lcm

/-! The objective of a period is invariant under *any* permutation of the declaration order of the functions (and of
the choices), stochastic and deterministic transition functions included. -/

theorem vhat_congr_env (g : Groups) (feas : List (List (Name × Rat))) (V : Tensor Ext) (e e' : Env) (h : EnvEq e e') :
    vhat g feas V e = vhat g feas V e' := by
  unfold vhat
  simp only [h _]

theorem envEq_of_perm_env (a b : Env) (hp : a.Perm b) (hnd : (a.map (·.1)).Nodup) : EnvEq a b := by
  intro x
  unfold Env.get?
  have := find?_perm_key (fun (q : Name × Val) => q.1) a b hp hnd x
  rw [this]

theorem mapM_keys {α : Type} (key : α → Name) (F : α → Option (Name × Val)) (hF : ∀ a b, F a = some b → b.1 = key a)
    (l : List α) (r : List (Name × Val)) (h : l.mapM F = some r) : r.map (·.1) = l.map key := by
  induction l generalizing r with
  | nil => simp at h; subst h; rfl
  | cons a l ih =>
    rw [List.mapM_cons] at h
    cases hfa : F a with
    | none => rw [hfa] at h; simp at h
    | some b =>
      rw [hfa] at h
      cases hl : l.mapM F with
      | none => rw [hl] at h; simp at h
      | some r' =>
        rw [hl] at h
        simp at h
        subst h
        simp [hF a b hfa, ih r' hl]

theorem mapM_keys' {α : Type} (key : α → Name) (F : α → Option (Name × List Rat)) (hF : ∀ a b, F a = some b → b.1 = key a)
    (l : List α) (r : List (Name × List Rat)) (h : l.mapM F = some r) : r.map (·.1) = l.map key := by
  induction l generalizing r with
  | nil => simp at h; subst h; rfl
  | cons a l ih =>
    rw [List.mapM_cons] at h
    cases hfa : F a with
    | none => rw [hfa] at h; simp at h
    | some b =>
      rw [hfa] at h
      cases hl : l.mapM F with
      | none => rw [hl] at h; simp at h
      | some r' =>
        rw [hl] at h
        simp at h
        subst h
        simp [hF a b hfa, ih r' hl]

/-- the names under which the transition values are stored are pairwise distinct (next_x ↦ x) -/
def NextKeysNodup (m : Model) : Prop :=
  ((((functionInfo m).filter (·.isNext)).filter (!·.isStochasticNext)).map fun fi => stripNext fi.name).Nodup ∧
  ((((functionInfo m).filter (·.isNext)).filter (·.isStochasticNext)).map fun fi => stripNext fi.name).Nodup

theorem detOf_keys (m : Model) (P : Params) (env : Env) (det : Env) (h : detOf m P env = some det) :
    det.map (·.1) = (((functionInfo m).filter (·.isNext)).filter (!·.isStochasticNext)).map fun fi => stripNext fi.name := by
  unfold detOf at h
  apply mapM_keys (fun fi : FunctionInfo => stripNext fi.name) _ _ _ _ h
  intro fi b hb
  cases hc : callF m P m.fuel env fi.name with
  | none => rw [hc] at hb; simp at hb
  | some v => rw [hc] at hb; simp at hb; rw [← hb]

theorem wrowsOf_keys (m : Model) (P : Params) (env : Env) (wrows : List (Name × List Rat)) (h : wrowsOf m P env = some wrows) :
    wrows.map (·.1) = (((functionInfo m).filter (·.isNext)).filter (·.isStochasticNext)).map fun fi => stripNext fi.name := by
  unfold wrowsOf at h
  have := mapM_keys' (fun n : Name => stripNext n) _ (by
    intro n b hb
    cases hf : m.func? n with
    | none => simp [hf] at hb
    | some f =>
      simp only [hf, Option.bind_eq_bind, Option.bind_some] at hb
      cases hd : f.args.mapM (fun a => (env.get? a).map fun v => natOfRat v.toRat) with
      | none => simp [hd] at hb
      | some deps =>
        simp only [hd, Option.bind_some] at hb
        cases hfind : P.shocks.find? (·.1 == stripNext n) with
        | none => simp [hfind] at hb
        | some xa =>
          simp only [hfind, Option.map_some, Option.bind_some, Option.pure_def, Option.some.injEq] at hb
          rw [← hb]) _ _ h
  rw [this, List.map_map]
  rfl

/-- the transition row of one stochastic state at an environment -/
def wrowFn (m : Model) (P : Params) (env : Env) (n : Name) : Option (Name × List Rat) := do
  let f ← m.func? n
  let x := stripNext n
  let deps ← f.args.mapM fun a => (env.get? a).map fun v => natOfRat v.toRat
  let arr ← (P.shocks.find? (·.1 == x)).map (·.2)
  let nlab := arr.shape.getLastD 0
  pure (x, (List.range nlab).map fun l => arr.get (deps ++ [l]))

theorem wrowsOf_eq (m : Model) (P : Params) (env : Env) :
    wrowsOf m P env = ((((functionInfo m).filter (·.isNext)).filter (·.isStochasticNext)).map (·.name)).mapM (wrowFn m P env) := rfl

theorem wrowFn_congr (m m' : Model) (hf : ∀ n, m.func? n = m'.func? n) (P : Params) (env : Env) (n : Name) :
    wrowFn m' P env n = wrowFn m P env n := by
  unfold wrowFn; rw [hf n]

theorem uAndF_funcPerm {m m' : Model} (h : ChoicePermOf m m') (hfn : (m.functions.map (·.name)).Nodup)
    (hk : NextKeysNodup m) (P : Params) (t : Nat) (next : Option (Tensor Ext × List (List (Name × Rat)))) (e : Env) :
    uAndF m P (groups m) t next e = uAndF m' P (groups m') t next e := by
  have hp := h.permOf
  have hf := hp.func? hfn
  have hc : allTrue m P (e ++ periodEnv t) (constraintNames m) = allTrue m' P (e ++ periodEnv t) (constraintNames m') := by
    rw [allTrue_congr_funcs m m' hf hp.fuel P]
    exact allTrue_perm m' P _ _ _ (hp.names (·.isConstraint))
  have hu : utilOf m P (e ++ periodEnv t) = utilOf m' P (e ++ periodEnv t) := by
    unfold utilOf; rw [hp.fuel, callF_congr_funcs m m' hf P]
  cases next with
  | none => rw [uAndF_none_eq, uAndF_none_eq, hc, hu]
  | some nx =>
    obtain ⟨V, feas⟩ := nx
    rw [uAndF_some_eq, uAndF_some_eq, hc, hu]
    cases allTrue m' P (e ++ periodEnv t) (constraintNames m') with
    | none => rfl
    | some f =>
      cases utilOf m' P (e ++ periodEnv t) with
      | none => rfl
      | some u =>
        simp only [Option.bind_some]
        -- deterministic transitions: the same values in another order
        have hfi : (functionInfo m).Perm (functionInfo m') := by unfold functionInfo; exact h.functions.map _
        have hdnames : (((functionInfo m).filter (·.isNext)).filter (!·.isStochasticNext)).Perm
            (((functionInfo m').filter (·.isNext)).filter (!·.isStochasticNext)) := (hfi.filter _).filter _
        have hsnames : ((((functionInfo m).filter (·.isNext)).filter (·.isStochasticNext)).map (·.name)).Perm
            ((((functionInfo m').filter (·.isNext)).filter (·.isStochasticNext)).map (·.name)) := ((hfi.filter _).filter _).map _
        have hdF : ∀ fi : FunctionInfo,
            ((callF m' P m'.fuel (e ++ periodEnv t) fi.name).map fun v => (stripNext fi.name, v))
              = ((callF m P m.fuel (e ++ periodEnv t) fi.name).map fun v => (stripNext fi.name, v)) := by
          intro fi; rw [hp.fuel, callF_congr_funcs m m' hf P]
        have hdet' : detOf m' P (e ++ periodEnv t)
            = (((functionInfo m').filter (·.isNext)).filter (!·.isStochasticNext)).mapM fun n =>
                (callF m P m.fuel (e ++ periodEnv t) n.name).map fun v => (stripNext n.name, v) := by
          unfold detOf
          apply mapM_congr_option
          intro fi _
          exact hdF fi
        have hw' : wrowsOf m' P (e ++ periodEnv t)
            = ((((functionInfo m').filter (·.isNext)).filter (·.isStochasticNext)).map (·.name)).mapM (wrowFn m P (e ++ periodEnv t)) := by
          rw [wrowsOf_eq]
          apply mapM_congr_option
          intro n _
          exact wrowFn_congr m m' hf P _ n
        rcases mapM_perm_option _ _ _ hdnames with ⟨hd1, hd2⟩ | ⟨det, det', hd1, hd2, hdp⟩
        · have e1 : detOf m P (e ++ periodEnv t) = none := hd1
          have e2 : detOf m' P (e ++ periodEnv t) = none := by rw [hdet']; exact hd2
          rw [e1, e2]; rfl
        · have e1 : detOf m P (e ++ periodEnv t) = some det := hd1
          have e2 : detOf m' P (e ++ periodEnv t) = some det' := by rw [hdet']; exact hd2
          rw [e1, e2]
          simp only [Option.bind_some]
          rcases mapM_perm_option (wrowFn m P (e ++ periodEnv t)) _ _ hsnames with ⟨hw1, hw2⟩ | ⟨wrows, wrows', hw1, hw2, hwp⟩
          · have f1 : wrowsOf m P (e ++ periodEnv t) = none := hw1
            have f2 : wrowsOf m' P (e ++ periodEnv t) = none := by rw [hw']; exact hw2
            rw [f1, f2]; rfl
          · have f1 : wrowsOf m P (e ++ periodEnv t) = some wrows := hw1
            have f2 : wrowsOf m' P (e ++ periodEnv t) = some wrows' := by rw [hw']; exact hw2
            rw [f1, f2]
            simp only [Option.bind_some]
            -- the two continuation functions agree as functions of the node
            obtain ⟨hS, hD, hC⟩ := state_groups_eq h hfn
            have hdk : (det.map (·.1)).Nodup := by rw [detOf_keys m P _ det e1]; exact hk.1
            have hwk : (wrows.map (·.1)).Nodup := by rw [wrowsOf_keys m P _ wrows f1]; exact hk.2
            have hEd : EnvEq det' det := (envEq_of_perm_env det det' hdp hdk).symm
            have hKK : ∀ a, vhat (groups m') feas V (det' ++ toEnv a) = vhat (groups m) feas V (det ++ toEnv a) := by
              intro a
              rw [vhat_state_groups _ _ hS hD hC]
              exact vhat_congr_env _ _ _ _ _ (hEd.append (EnvEq.refl _))
            simp only [hKK]
            rw [foldlM_eq_seqSum (fun a => vhat (groups m) feas V (det ++ toEnv a)) (nodesOf wrows) 0,
              foldlM_eq_seqSum (fun a => vhat (groups m) feas V (det ++ toEnv a)) (nodesOf wrows') 0]
            have hperm := nodes_map_perm wrows wrows' hwp (fun a => vhat (groups m) feas V (det ++ toEnv a)) (by
              intro a a' haa hkeys
              have hnd : (a.map (·.1)).Nodup := hkeys.nodup_iff.mpr hwk
              exact vhat_congr_env _ _ _ _ _ ((EnvEq.refl det).append (envEq_of_perm a a' haa hnd)))
            rw [seqSum_perm _ _ hperm]

end Lcm
