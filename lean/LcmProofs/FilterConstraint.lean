import LcmProofs.SpecPerm
import LcmProofs.AffineSolve
namespace Lcm

/-! C10, "the same restriction written as a filter or as a constraint", last period, specification level: the value of
every named state is the same. (`specV` treats the combined filter and the combined constraint symmetrically: a choice
is admissible when both hold.) Together with `C01_entry_eq_spec_*` this identifies the stored last-period entries of the
two specifications for the states that remain in the space - although one array has a leading axis of feasible
restricted states and the other may not. -/

/-- `m'` is `m` with the restriction `nF` (a filter of `m`) re-declared as the constraint `nC` -/
structure FilterToConstraint (m m' : Model) (P : Params) (nF nC : Name) : Prop where
  choices : m'.choices = m.choices
  /-- every other function evaluates alike -/
  other : ∀ env n, n ≠ nF → n ≠ nC → callF m' P m'.fuel env n = callF m P m.fuel env n
  /-- the restriction itself is the same function under another name -/
  moved : ∀ env, callF m' P m'.fuel env nC = callF m P m.fuel env nF
  filters : (filterNames m).Perm (nF :: filterNames m')
  constraints : (constraintNames m').Perm (nC :: constraintNames m)
  fresh : nF ∉ filterNames m' ∧ nC ∉ filterNames m' ∧ nF ∉ constraintNames m ∧ nC ∉ constraintNames m ∧
    "utility" ≠ nF ∧ "utility" ≠ nC

theorem allTrueFrom_acc (m : Model) (P : Params) (env : Env) (acc : Bool) (l : List Name) :
    allTrueFrom m P env acc l = (allTrueFrom m P env true l).map (acc && ·) := by
  induction l generalizing acc with
  | nil => simp [allTrueFrom]
  | cons n l ih =>
    rw [allTrueFrom_cons, allTrueFrom_cons]
    cases callF m P m.fuel env n with
    | none => rfl
    | some v =>
      simp only [Option.bind_some]
      rw [ih (acc && v.toBool), ih (true && v.toBool)]
      cases allTrueFrom m P env true l with
      | none => rfl
      | some b => simp [Bool.and_assoc]

theorem allTrue_cons' (m : Model) (P : Params) (env : Env) (n : Name) (l : List Name) :
    allTrue m P env (n :: l) = (callF m P m.fuel env n).bind fun v => (allTrue m P env l).map (v.toBool && ·) := by
  rw [allTrue_eq_from, allTrueFrom_cons]
  cases callF m P m.fuel env n with
  | none => rfl
  | some v =>
    simp only [Option.bind_some]
    rw [allTrueFrom_acc, allTrue_eq_from]
    simp

theorem allTrue_congr_on (m m' : Model) (P : Params) (env : Env) (l : List Name)
    (h : ∀ n ∈ l, callF m' P m'.fuel env n = callF m P m.fuel env n) : allTrue m' P env l = allTrue m P env l :=
  allTrue_congr_names m m' P env l h

/-- one choice combination: admissible with the same objective in both specifications, or inadmissible in both -/
theorem selAdm_specQ_filter_constraint {m m' : Model} {P : Params} {nF nC : Name} (h : FilterToConstraint m m' P nF nC)
    (g g' : Groups) (t : Nat) (st ch : List (Name × Rat)) :
    selAdm (specQ m' P g' t none st ch) = selAdm (specQ m P g t none st ch) := by
  obtain ⟨hf1, hf2, hf3, hf4, hu1, hu2⟩ := h.fresh
  rw [specQ_eq_combine, specQ_eq_combine, uAndF_none_eq, uAndF_none_eq]
  generalize toEnv (st ++ ch) ++ periodEnv t = e
  -- the restriction
  have hr : callF m' P m'.fuel e nC = callF m P m.fuel e nF := h.moved e
  -- filters
  have hF : allTrue m P e (filterNames m)
      = (callF m P m.fuel e nF).bind fun v => (allTrue m P e (filterNames m')).map (v.toBool && ·) := by
    rw [allTrue_perm m P e _ _ h.filters, allTrue_cons']
  have hF' : allTrue m' P e (filterNames m') = allTrue m P e (filterNames m') :=
    allTrue_congr_on m m' P e _ (fun n hn => h.other e n (fun hh => hf1 (hh ▸ hn)) (fun hh => hf2 (hh ▸ hn)))
  -- constraints
  have hC' : allTrue m' P e (constraintNames m')
      = (callF m P m.fuel e nF).bind fun v => (allTrue m P e (constraintNames m)).map (v.toBool && ·) := by
    rw [allTrue_perm m' P e _ _ h.constraints, allTrue_cons', hr,
      allTrue_congr_on m m' P e _ (fun n hn => h.other e n (fun hh => hf3 (hh ▸ hn)) (fun hh => hf4 (hh ▸ hn)))]
  have hU : utilOf m' P e = utilOf m P e := by
    unfold utilOf; rw [h.other e "utility" hu1 hu2]
  rw [hF, hF', hC', hU]
  -- finite case analysis
  cases callF m P m.fuel e nF with
  | none =>
    cases allTrue m P e (filterNames m') with
    | none => rfl
    | some a => cases a <;> rfl
  | some v =>
    simp only [Option.bind_some]
    generalize v.toBool = b
    cases allTrue m P e (filterNames m') with
    | none => rfl
    | some a =>
      cases allTrue m P e (constraintNames m) with
      | none => cases a <;> cases b <;> simp [selAdm, combineQ]
      | some c =>
        cases utilOf m P e with
        | none => cases a <;> cases b <;> simp [selAdm, combineQ]
        | some u => cases a <;> cases b <;> cases c <;> simp [selAdm, combineQ]

/-- **last-period value of a named state: the same for the filter form and the constraint form** -/
theorem specV_filter_constraint {m m' : Model} {P : Params} {nF nC : Name} (h : FilterToConstraint m m' P nF nC)
    (g g' : Groups) (t : Nat) (st : List (Name × Rat)) :
    specV m' P g' t none st = specV m P g t none st := by
  show foldMax (((allChoices m').filterMap fun c => selAdm (specQ m' P g' t none st c)).map Ext.fin)
    = foldMax (((allChoices m).filterMap fun c => selAdm (specQ m P g t none st c)).map Ext.fin)
  have hch : allChoices m' = allChoices m := by unfold allChoices; rw [h.choices]
  rw [hch]
  congr 2
  apply List.filterMap_congr
  intro c _
  exact selAdm_specQ_filter_constraint h g g' t st c

#print axioms specV_filter_constraint
end Lcm
