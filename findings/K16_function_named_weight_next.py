"""C07 finding 1: a model function whose name starts with 'weight_next_' never receives its parameters.

(a) auxiliary function 'weight_next_year(s, gain)': the template lists {'gain': nan} under its name, but
    solve crashes with an internal error because the value is never delivered.
(b) auxiliary function 'weight_next_h' in a model with a stochastic state 'h': the user function is silently
    replaced by the generated transition-weight function; solve returns different numbers than for the same
    model with the function renamed to 'w_next_h'.
Run: LCM_WT=/tmp/hunt_C07 /venv/bin/python finding_1.py   (exit 1 while the defect is present)
"""
import sys, types, os
WT = os.environ.get("LCM_WT", "/tmp/hunt_C07")
sys.path.insert(0, os.path.join(WT, "src"))
import jax, jax._src.util as _u
m = types.ModuleType("jax.util"); m.safe_zip = _u.safe_zip; m.unzip2 = _u.unzip2
sys.modules["jax.util"] = m; jax.util = m
jax.config.update("jax_enable_x64", True)
import lcm
assert lcm.__file__.startswith(WT), lcm.__file__

from dataclasses import make_dataclass
import numpy as np, jax.numpy as jnp
from lcm import Model, DiscreteGrid
from lcm.entry_point import get_lcm_function

def cat(n): return make_dataclass("C", [(f"c{i}", int, i) for i in range(n)])
defect = False

# ---------------------------------------------------------------- (a)
def next_s(s, a): return (s + a) % 3
def weight_next_year(s, gain): return gain * s          # e.g. body weight next year
def utility_a(s, a, weight_next_year): return weight_next_year - 0.3 * a * s + 0.1 * a

model_a = Model(n_periods=2,
    functions={"utility": utility_a, "next_s": next_s, "weight_next_year": weight_next_year},
    choices={"a": DiscreteGrid(cat(2))}, states={"s": DiscreteGrid(cat(3))})
solve, template = get_lcm_function(model_a, targets="solve", debug_mode=False)
print("(a) template:", template)
params = {"beta": 0.9, "utility": {}, "next_s": {}, "weight_next_year": {"gain": 1.5}}
# expected (by hand): V_1(s) = max_a 1.5 s - .3 a s + .1 a ; V_0 = max_a u + .9 V_1((s+a)%3)
V1 = np.array([max(1.5*s - .3*a*s + .1*a for a in range(2)) for s in range(3)])
V0 = np.array([max(1.5*s - .3*a*s + .1*a + .9*V1[(s+a) % 3] for a in range(2)) for s in range(3)])
try:
    V = solve(params)
    got = [np.asarray(V[0]), np.asarray(V[1])]
    print("(a) observed V:", got, " expected:", [V0, V1])
    if not (np.allclose(got[0], V0) and np.allclose(got[1], V1)):
        defect = True
except Exception as e:  # noqa: BLE001
    print(f"(a) input: aux function 'weight_next_year(s, gain)', params['weight_next_year']={{'gain': 1.5}}")
    print(f"(a) observed: {type(e).__name__}: {e}")
    print(f"(a) expected: V = {[V0, V1]}")
    defect = True

# ---------------------------------------------------------------- (b)
@lcm.mark.stochastic
def next_h(s, h): pass
def aux(s, p): return p * s
def make_b(auxname):
    src = f"def utility(s, a, h, {auxname}): return 1.5*s - 0.3*a*s + 0.1*a + 0.7*h*a - 0.2*h*s + {auxname}\n"
    ns = {}; exec(src, ns)
    return Model(n_periods=2, functions={"utility": ns["utility"], "next_s": next_s, "next_h": next_h, auxname: aux},
        choices={"a": DiscreteGrid(cat(2))}, states={"s": DiscreteGrid(cat(3)), "h": DiscreteGrid(cat(2))})
shocks = {"h": jnp.array([[[.5, .5], [.2, .8]], [[.9, .1], [.3, .7]], [[1., 0.], [.4, .6]]])}
res = {}
for auxname in ["w_next_h", "weight_next_h"]:
    f, t = get_lcm_function(make_b(auxname), targets="solve", debug_mode=False)
    print(f"(b) template for aux name {auxname!r}:", {k: v for k, v in t.items() if k != "shocks"})
    try:
        V = f({"beta": 0.9, auxname: {"p": 0.5}, "shocks": shocks})
        res[auxname] = np.asarray(V[0])
    except Exception as e:  # noqa: BLE001
        res[auxname] = f"{type(e).__name__}: {e}"
print("(b) V_0 with aux function named 'w_next_h'     :", res["w_next_h"])
print("(b) V_0 with aux function named 'weight_next_h':", res["weight_next_h"])
if isinstance(res["weight_next_h"], str) or not np.allclose(res["w_next_h"], res["weight_next_h"]):
    print("(b) renaming an auxiliary function changes the solution: params['weight_next_h'] is ignored and the "
          "user function is replaced by the generated weight function")
    defect = True

sys.exit(1 if defect else 0)
